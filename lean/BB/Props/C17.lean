/-
  C17 — Worker: one running instance while held, stopped only after every holder is done.
  Theorems for every reachable state: any number of concurrent holders, any interleaving of Do and
  done calls with the instance starting, the watcher taking wait groups, being told to stop, exiting.
  Contract assumed of the supplied function: it returns only after its stop channel is closed.
-/
import BB.Model.Worker
import BB.Core.Fair

namespace BB.Props.C17
open BB.Worker BB.LTS

structure Inv (s : St) : Prop where
  noInst  : s.inst = false → s.watcher = none ∧ s.wgCur = none ∧ (∀ n ∈ s.cnt, n = 0) ∧ s.live = 0 ∧
              s.stopClosed = false ∧ s.fnReturned = false
  hasInst : s.inst = true → s.watcher ≠ none ∧ s.live = (if s.fnReturned then 0 else 1)
  stopped : s.stopClosed = true → s.watcher = some .stopping ∧ s.wgCur = none ∧ (∀ n ∈ s.cnt, n = 0)
  stopping : s.watcher = some .stopping → s.stopClosed = true
  curValid : ∀ id, s.wgCur = some id → id < s.cnt.length
  positive : ∀ id n, s.cnt[id]? = some (n + 1) → s.wgCur = some id ∨ s.watcher = some (.waiting id)
  retStop : s.fnReturned = true → s.stopClosed = true
  waitValid : ∀ id, s.watcher = some (.waiting id) → id < s.cnt.length

theorem inv_init : Inv sys.init := by
  constructor <;> simp [sys]

theorem mem_set_zero {l : List Nat} {id v : Nat} (h : ∀ n ∈ l, n = 0) (hv : v = 0) : ∀ n ∈ l.set id v, n = 0 := by
  intro n hn
  rcases List.mem_or_eq_of_mem_set hn with hn | rfl
  · exact h n hn
  · exact hv

theorem inv_step (s : St) (a : Act) (s' : St) (h : Inv s) (hs : sys.step s a = some s') : Inv s' := by
  simp only [sys] at hs
  cases a with
  | do_ =>
    simp only [step] at hs
    split at hs
    · cases hs
    · rename_i hmu
      have hnotstopping : s.watcher ≠ some .stopping := by simpa [muHeld] using hmu
      have hnsc : s.stopClosed = false := by
        cases hx : s.stopClosed
        · rfl
        · exact absurd (h.stopped hx).1 hnotstopping
      by_cases hi : s.inst = true
      · simp only [hi, if_true] at hs
        obtain ⟨hw, hl⟩ := h.hasInst hi
        split at hs
        · rename_i id hcur
          cases hs
          have hidl := h.curValid id hcur
          refine ⟨by simp [hi], fun _ => ⟨hw, hl⟩, (fun hx => absurd hx (by simp [hnsc])), h.stopping, ?_, ?_, h.retStop, (fun id' h' => by simp only at h' ⊢; rw [List.length_set]; exact h.waitValid id' h')⟩
          · intro id' h'; simp only at h' ⊢; rw [List.length_set]; exact h.curValid id' h'
          · intro id' n hn
            simp only at hn ⊢
            by_cases he : id = id'
            · subst he; exact Or.inl hcur
            · rw [List.getElem?_set_ne he] at hn; exact h.positive id' n hn
        · rename_i hcur
          cases hs
          refine ⟨by simp [hi], fun _ => ⟨hw, hl⟩, (fun hx => absurd hx (by simp [hnsc])), h.stopping, ?_, ?_, h.retStop, (fun id' h' => by have := h.waitValid id' h'; simp only [List.length_append, List.length_singleton]; omega)⟩
          · intro id' h'; simp only [Option.some.injEq] at h'; subst h'; simp
          · intro id' n hn
            simp only at hn ⊢
            by_cases hlt : id' < s.cnt.length
            · rw [List.getElem?_append_left hlt] at hn
              rcases h.positive id' n hn with h1 | h1
              · rw [hcur] at h1; cases h1
              · exact Or.inr h1
            · have : id' = s.cnt.length := by
                have := (List.getElem?_eq_some_iff.mp hn).1
                simp at this; omega
              exact Or.inl (by rw [this])
      · have hi' : s.inst = false := by simpa using hi
        obtain ⟨n1, n2, n3, n4, n5, n6⟩ := h.noInst hi'
        simp only [hi', Bool.false_eq_true, if_false, n2] at hs
        cases hs
        refine ⟨by simp, by simp [n4], by simp, by simp, ?_, ?_, by simp, by simp⟩
        · intro id' h'; simp only [Option.some.injEq] at h'; subst h'; simp
        · intro id' n hn
          simp only at hn ⊢
          by_cases hlt : id' < s.cnt.length
          · rw [List.getElem?_append_left hlt] at hn
            have := n3 _ (List.mem_of_getElem? hn); omega
          · have : id' = s.cnt.length := by
              have := (List.getElem?_eq_some_iff.mp hn).1
              simp at this; omega
            exact Or.inl (by rw [this])
  | done id =>
    simp only [step] at hs
    split at hs
    · rename_i n hn
      cases hs
      have hpos := h.positive id n hn
      have hinst : s.inst = true := by
        cases hx : s.inst
        · have := (h.noInst hx).2.2.1 _ (List.mem_of_getElem? hn); omega
        · rfl
      have hnsc : s.stopClosed = false := by
        cases hx : s.stopClosed
        · rfl
        · have := (h.stopped hx).2.2 _ (List.mem_of_getElem? hn); omega
      refine ⟨(fun hx => absurd hx (by simp [hinst])), h.hasInst, (fun hx => absurd hx (by simp [hnsc])), h.stopping, ?_, ?_, h.retStop, (fun id' h' => by simp only at h' ⊢; rw [List.length_set]; exact h.waitValid id' h')⟩
      · intro id' h'; simp only at h' ⊢; rw [List.length_set]; exact h.curValid id' h'
      · intro id' m hm
        simp only at hm ⊢
        by_cases he : id = id'
        · subst he; exact hpos
        · rw [List.getElem?_set_ne he] at hm; exact h.positive id' m hm
    · cases hs
  | take =>
    simp only [step] at hs
    split at hs
    · rename_i hw
      have hinst : s.inst = true := by
        cases hx : s.inst
        · have := (h.noInst hx).1; rw [hw] at this; cases this
        · rfl
      have hnsc : s.stopClosed = false := by
        cases hx : s.stopClosed
        · rfl
        · have := (h.stopped hx).1; rw [hw] at this; cases this
      split at hs
      · rename_i id hcur
        cases hs
        refine ⟨(fun hx => absurd hx (by simp [hinst])), fun _ => ⟨by simp, (h.hasInst hinst).2⟩,
          (fun hx => absurd hx (by simp [hnsc])), by simp, by simp, ?_, h.retStop,
          (fun id' h' => by simp only [Option.some.injEq, WPc.waiting.injEq] at h'; subst h'; exact h.curValid _ hcur)⟩
        intro id' n hn
        rcases h.positive id' n hn with h1 | h1
        · rw [hcur] at h1; cases h1; exact Or.inr rfl
        · rw [hw] at h1; cases h1
      · rename_i hcur
        cases hs
        have hzero : ∀ n ∈ s.cnt, n = 0 := by
          intro n hn
          obtain ⟨i, hi, rfl⟩ := List.mem_iff_getElem.mp hn
          cases hv : s.cnt[i] with
          | zero => rfl
          | succ m =>
            rcases h.positive i m (by rw [List.getElem?_eq_getElem hi, hv]) with h1 | h1
            · rw [hcur] at h1; cases h1
            · rw [hw] at h1; cases h1
        refine ⟨(fun hx => absurd hx (by simp [hinst])), fun _ => ⟨by simp, (h.hasInst hinst).2⟩,
          fun _ => ⟨rfl, hcur, hzero⟩, fun _ => rfl, by simp [hcur], ?_, fun _ => rfl, by simp⟩
        intro id' n hn
        have := hzero _ (List.mem_of_getElem? hn); omega
    · cases hs
  | waited =>
    simp only [step] at hs
    split at hs
    · rename_i id hw
      split at hs
      · rename_i hz
        cases hs
        have hinst : s.inst = true := by
          cases hx : s.inst
          · have := (h.noInst hx).1; rw [hw] at this; cases this
          · rfl
        have hnsc : s.stopClosed = false := by
          cases hx : s.stopClosed
          · rfl
          · have := (h.stopped hx).1; rw [hw] at this; cases this
        refine ⟨(fun hx => absurd hx (by simp [hinst])), fun _ => ⟨by simp, (h.hasInst hinst).2⟩,
          (fun hx => absurd hx (by simp [hnsc])), by simp, h.curValid, ?_, h.retStop, by simp⟩
        intro id' n hn
        rcases h.positive id' n hn with h1 | h1
        · exact Or.inl h1
        · rw [hw] at h1; cases h1; rw [hz] at hn; cases hn
      · cases hs
    · cases hs
  | fnReturn =>
    simp only [step] at hs
    split at hs
    · rename_i hc
      simp only [Bool.and_eq_true, Bool.not_eq_true'] at hc
      obtain ⟨⟨hi, hr⟩, hsc⟩ := hc
      cases hs
      have hl := (h.hasInst hi).2
      simp only [hr, Bool.false_eq_true, if_false] at hl
      refine ⟨(fun hx => absurd hx (by simp [hi])), fun _ => ⟨(h.hasInst hi).1, by simp [hl]⟩, h.stopped, h.stopping,
        h.curValid, h.positive, fun _ => hsc, h.waitValid⟩
    · cases hs
  | finish =>
    simp only [step] at hs
    split at hs
    · rename_i hc
      simp only [Bool.and_eq_true, decide_eq_true_eq] at hc
      obtain ⟨hw, hr⟩ := hc
      cases hs
      have hsc := h.stopping hw
      obtain ⟨_, s2, s3⟩ := h.stopped hsc
      have hinst : s.inst = true := by
        cases hx : s.inst
        · have := (h.noInst hx).1; rw [hw] at this; cases this
        · rfl
      have hl := (h.hasInst hinst).2
      simp only [hr, if_true] at hl
      refine ⟨fun _ => ⟨rfl, s2, s3, hl, rfl, rfl⟩, by simp, by simp, by simp, h.curValid, ?_, by simp, by simp⟩
      intro id' n hn
      have := s3 _ (List.mem_of_getElem? hn); omega
    · cases hs

theorem inv_reach : ∀ s, Reach sys s → Inv s := invariant sys Inv inv_init inv_step

theorem held_pos {s : St} (hh : held s = true) : ∃ (id n : Nat), s.cnt[id]? = some (n + 1) := by
  simp only [held, List.any_eq_true, decide_eq_true_eq] at hh
  obtain ⟨x, hx, hpos⟩ := hh
  obtain ⟨i, hi, rfl⟩ := List.mem_iff_getElem.mp hx
  exact ⟨i, s.cnt[i] - 1, by rw [List.getElem?_eq_getElem hi]; congr 1; omega⟩

/-- never two instances of the function at once -/
theorem single_instance (s : St) (h : Reach sys s) : s.live ≤ 1 := by
  have hi := inv_reach s h
  cases hx : s.inst
  · have := (hi.noInst hx).2.2.2.1; omega
  · have := (hi.hasInst hx).2; split at this <;> omega

/-- while any done function is outstanding, an instance exists, its function is running and its stop
    channel is open -/
theorem held_implies_running_open (s : St) (h : Reach sys s) (hh : held s = true) :
    s.inst = true ∧ s.stopClosed = false ∧ s.fnReturned = false ∧ s.live = 1 := by
  have hi := inv_reach s h
  obtain ⟨id, n, hn⟩ := held_pos hh
  have hmem := List.mem_of_getElem? hn
  have hinst : s.inst = true := by
    cases hx : s.inst
    · have := (hi.noInst hx).2.2.1 _ hmem; omega
    · rfl
  have hnsc : s.stopClosed = false := by
    cases hx : s.stopClosed
    · rfl
    · have := (hi.stopped hx).2.2 _ hmem; omega
  have hnr : s.fnReturned = false := by
    cases hx : s.fnReturned
    · rfl
    · have := hi.retStop hx; rw [hnsc] at this; cases this
  refine ⟨hinst, hnsc, hnr, ?_⟩
  have := (hi.hasInst hinst).2
  simpa [hnr] using this

/-- the stop channel is closed only when every done function handed out so far has been called -/
theorem stop_after_all_done (s : St) (h : Reach sys s) (hs : s.stopClosed = true) : held s = false := by
  have := ((inv_reach s h).stopped hs).2.2
  cases hh : held s
  · rfl
  · obtain ⟨id, n, hn⟩ := held_pos hh
    have := this _ (List.mem_of_getElem? hn); omega

/-- a Do that arrives while the instance is stopping cannot proceed (it blocks on the mutex) … -/
theorem do_blocked_while_stopping (s : St) (hw : s.watcher = some .stopping) : sys.step s .do_ = none := by
  simp [sys, step, muHeld, hw]

/-- … and once the watcher has finished, the next Do starts a fresh instance -/
theorem fresh_instance_after_stop (s s' s'' : St) (h : Reach sys s) (hf : sys.step s .finish = some s')
    (hd : sys.step s' .do_ = some s'') :
    s'.inst = false ∧ s''.inst = true ∧ s''.stopClosed = false ∧ s''.started = s.started + 1 ∧ s''.live = 1 := by
  have hi' := inv_step s .finish s' (inv_reach s h) hf
  simp only [sys, step] at hf
  split at hf
  · cases hf
    have hn := hi'.noInst rfl
    simp only [sys, step, muHeld] at hd
    simp only at hn
    simp only [hn.2.1, hn.2.2.2.1] at hd
    simp at hd
    cases hd
    simp
  · cases hf

/-- every started instance is eventually told to stop once nobody holds it: with no holder
    outstanding the system is never stuck before the instance is gone — some watcher or function
    step is enabled (progress half of the liveness clause) -/
theorem unheld_not_stuck (s : St) (h : Reach sys s) (hi : s.inst = true) (hh : held s = false) :
    ∃ a, (sys.step s a).isSome = true ∧ a ≠ .do_ := by
  have inv := inv_reach s h
  have hz : ∀ id, id < s.cnt.length → s.cnt[id]? = some 0 := by
    intro id hid
    simp only [held] at hh
    have := (List.any_eq_false.mp hh) s.cnt[id] (List.getElem_mem hid)
    rw [List.getElem?_eq_getElem hid]; congr 1; simpa using this
  cases hw : s.watcher with
  | none => exact absurd hw (inv.hasInst hi).1
  | some pc =>
    cases pc with
    | top =>
      cases hc : s.wgCur with
      | some id => exact ⟨.take, by simp [sys, step, hw, hc], by simp⟩
      | none => exact ⟨.take, by simp [sys, step, hw, hc], by simp⟩
    | waiting id =>
      have hid : id < s.cnt.length := inv.waitValid id hw
      exact ⟨.waited, by simp [sys, step, hw, hz id hid], by simp⟩
    | stopping =>
      have hsc := inv.stopping hw
      cases hr : s.fnReturned
      · exact ⟨.fnReturn, by simp [sys, step, hi, hr, hsc], by simp⟩
      · exact ⟨.finish, by simp [sys, step, hw, hr], by simp⟩

/-! ### "every started instance is stopped once nobody holds it" as a leads-to theorem

  From a point after which no new `Do` arrives and no done function is outstanding, along every run that is weakly
  fair for the watcher's and the function's steps ("the function returns once its stop channel is closed" is the
  `fnReturn` step), the instance is stopped and gone.  The measure follows the watcher's loop: at most six steps. -/

def noDo : Act → Prop
  | .do_ => False
  | _ => True

def mu (s : St) : Nat :=
  match s.watcher with
  | none => 0
  | some .top => if s.wgCur.isSome then 5 else 3
  | some (.waiting _) => if s.wgCur.isSome then 6 else 4
  | some .stopping => if s.fnReturned then 1 else 2

theorem held_of_pos {s : St} {id n : Nat} (h : s.cnt[id]? = some (n + 1)) : held s = true := by
  simp only [held, List.any_eq_true, decide_eq_true_eq]
  exact ⟨n + 1, List.mem_of_getElem? h, by omega⟩

/-- without new `Do`s, an unheld instance stays unheld -/
theorem unheld_stable (s s' : St) (a : Act) (ha : noDo a) (hs : sys.step s a = some s') (hh : held s = false) :
    held s' = false := by
  simp only [sys] at hs
  cases a with
  | do_ => exact absurd ha (by simp [noDo])
  | done id =>
    simp only [step] at hs
    split at hs
    · rename_i n hn; rw [held_of_pos hn] at hh; cases hh
    · cases hs
  | take =>
    simp only [step] at hs
    split at hs
    · split at hs <;> (cases hs; exact hh)
    · cases hs
  | waited =>
    simp only [step] at hs
    split at hs
    · split at hs
      · cases hs; exact hh
      · cases hs
    · cases hs
  | fnReturn =>
    simp only [step] at hs
    split at hs
    · cases hs; exact hh
    · cases hs
  | finish =>
    simp only [step] at hs
    split at hs
    · cases hs; exact hh
    · cases hs

/-- every watcher / function step of an unheld instance brings it closer to being gone -/
theorem mu_step (s s' : St) (a : Act) (h : Inv s) (hh : held s = false) (ha : noDo a)
    (hs : sys.step s a = some s') : s'.inst = false ∨ mu s' < mu s := by
  simp only [sys] at hs
  cases a with
  | do_ => exact absurd ha (by simp [noDo])
  | done id =>
    simp only [step] at hs
    split at hs
    · rename_i n hn; rw [held_of_pos hn] at hh; cases hh
    · cases hs
  | take =>
    simp only [step] at hs
    split at hs
    · rename_i hw
      split at hs
      · rename_i id hc; cases hs; right; simp [mu, hw, hc]
      · rename_i hc; cases hs; right
        have hr : s.fnReturned = false := by
          cases hr : s.fnReturned with
          | false => rfl
          | true => have := (h.stopped (h.retStop hr)).1; rw [hw] at this; cases this
        simp [mu, hw, hc, hr]
    · cases hs
  | waited =>
    simp only [step] at hs
    split at hs
    · rename_i id hw
      split at hs
      · cases hs; right
        cases hc : s.wgCur <;> simp [mu, hw, hc]
      · cases hs
    · cases hs
  | fnReturn =>
    simp only [step] at hs
    split at hs
    · rename_i hc
      simp only [Bool.and_eq_true, Bool.not_eq_true'] at hc
      cases hs; right
      have hw := (h.stopped hc.2).1
      simp [mu, hw, hc.1.2]
    · cases hs
  | finish =>
    simp only [step] at hs
    split at hs
    · cases hs; left; rfl
    · cases hs

/-- **every started instance is stopped once nobody holds it**: from a point after which no new `Do` arrives and
    no done function is outstanding, along every weakly fair run the instance is told to stop, its function
    returns, and it is gone (`inst = false`, hence by the invariant no live function goroutine) -/
theorem unheld_instance_is_eventually_stopped (r : Run sys) (hfair : WeakFair sys (fun _ a => noDo a) r)
    (i0 : Nat) (hquiet : ∀ k, i0 ≤ k → ∀ a, r.act k = some a → noDo a)
    (i : Nat) (hi : i0 ≤ i) (hh : held (r.st i) = false) :
    ∃ k, i ≤ k ∧ (r.st k).inst = false ∧ (r.st k).live = 0 := by
  have key := leadsTo_from sys (fun _ a => noDo a) r Inv (fun s => s.inst = false ∨ held s = true) mu noDo i0 hquiet hfair
    (fun k => inv_reach _ (run_reach sys r k))
    (fun s hI hnG => by
      have hinst : s.inst = true := by cases hx : s.inst with | true => rfl | false => exact absurd (Or.inl hx) hnG
      have hheld : held s = false := by cases hx : held s with | false => rfl | true => exact absurd (Or.inr hx) hnG
      have hz : ∀ id, id < s.cnt.length → s.cnt[id]? = some 0 := by
        intro id hid
        simp only [held] at hheld
        have := (List.any_eq_false.mp hheld) s.cnt[id] (List.getElem_mem hid)
        rw [List.getElem?_eq_getElem hid]; congr 1; simpa using this
      cases hw : s.watcher with
      | none => exact absurd hw (hI.hasInst hinst).1
      | some pc =>
        cases pc with
        | top =>
          cases hc : s.wgCur with
          | some id => exact ⟨.take, trivial, by simp [enabled, sys, step, hw, hc]⟩
          | none => exact ⟨.take, trivial, by simp [enabled, sys, step, hw, hc]⟩
        | waiting id =>
          have hid : id < s.cnt.length := hI.waitValid id hw
          exact ⟨.waited, trivial, by simp [enabled, sys, step, hw, hz id hid]⟩
        | stopping =>
          have hsc := hI.stopping hw
          cases hr : s.fnReturned
          · exact ⟨.fnReturn, trivial, by simp [enabled, sys, step, hinst, hr, hsc]⟩
          · exact ⟨.finish, trivial, by simp [enabled, sys, step, hw, hr]⟩)
    (fun s a s' hI hnG hA hs => by
      have hheld : held s = false := by cases hx : held s with | false => rfl | true => exact absurd (Or.inr hx) hnG
      rcases mu_step s s' a hI hheld hA hs with h | h
      · exact Or.inl (Or.inl h)
      · exact Or.inr (Nat.le_of_lt h))
    (fun s a s' hI hnG hA _ hs => by
      have hheld : held s = false := by cases hx : held s with | false => rfl | true => exact absurd (Or.inr hx) hnG
      rcases mu_step s s' a hI hheld hA hs with h | h
      · exact Or.inl (Or.inl h)
      · exact Or.inr h)
  have stay : ∀ k, held (r.st (i + k)) = false := by
    intro k
    induction k with
    | zero => exact hh
    | succ k ih =>
      have hn := r.next (i + k)
      rw [show i + (k + 1) = i + k + 1 by omega]
      cases ha : r.act (i + k) with
      | none => simp only [ha] at hn; rw [hn]; exact ih
      | some a =>
        simp only [ha] at hn
        exact unheld_stable _ _ a (hquiet _ (by omega) a ha) hn ih
  obtain ⟨k, hk, hg⟩ := key i hi
  have hk' := stay (k - i)
  rw [show i + (k - i) = k by omega] at hk'
  rcases hg with hg | hg
  · exact ⟨k, hk, hg, ((inv_reach _ (run_reach sys r k)).noInst hg).2.2.2.1⟩
  · rw [hk'] at hg; cases hg

/-! non-vacuity of the leads-to theorem: one holder, then nothing more; the run is weakly fair -/
def demoActs : Nat → Option Act
  | 0 => some .do_ | 1 => some .take | 2 => some (.done 0) | 3 => some .waited | 4 => some .take
  | 5 => some .fnReturn | 6 => some .finish | _ => none

def demoSt : Nat → St
  | 0 => sys.init
  | k + 1 => match demoActs k with
    | some a => (sys.step (demoSt k) a).getD (demoSt k)
    | none => demoSt k

theorem demoSt_final (k : Nat) : demoSt (k + 7) = demoSt 7 := by
  induction k with
  | zero => rfl
  | succ k ih => show demoSt (k + 7) = demoSt 7; exact ih

def demoRun : Run sys where
  st := demoSt
  act := demoActs
  start := rfl
  next := by
    intro i
    match i with
    | 0 => show sys.step (demoSt 0) _ = some (demoSt 1); decide
    | 1 => show sys.step (demoSt 1) _ = some (demoSt 2); decide
    | 2 => show sys.step (demoSt 2) _ = some (demoSt 3); decide
    | 3 => show sys.step (demoSt 3) _ = some (demoSt 4); decide
    | 4 => show sys.step (demoSt 4) _ = some (demoSt 5); decide
    | 5 => show sys.step (demoSt 5) _ = some (demoSt 6); decide
    | 6 => show sys.step (demoSt 6) _ = some (demoSt 7); decide
    | k + 7 => rfl

theorem demoRun_fair : WeakFair sys (fun _ a => noDo a) demoRun := by
  intro i hen
  by_cases hi : i < 7
  · refine ⟨max i 1, by omega, ?_⟩
    match i, hi with
    | 0, _ => exact ⟨_, rfl, trivial⟩
    | 1, _ => exact ⟨_, rfl, trivial⟩
    | 2, _ => exact ⟨_, rfl, trivial⟩
    | 3, _ => exact ⟨_, rfl, trivial⟩
    | 4, _ => exact ⟨_, rfl, trivial⟩
    | 5, _ => exact ⟨_, rfl, trivial⟩
    | 6, _ => exact ⟨_, rfl, trivial⟩
  · exfalso
    obtain ⟨a, hH, he⟩ := hen i (Nat.le_refl _)
    have hst : demoRun.st i = demoSt 7 := by
      have := demoSt_final (i - 7); rwa [show i - 7 + 7 = i by omega] at this
    rw [hst] at he
    cases a with
    | do_ => exact hH
    | done k =>
      have hc : (demoSt 7).cnt = [0] := by decide
      simp only [enabled, sys, step, hc] at he
      match k with
      | 0 => simp at he
      | k + 1 => simp at he
    | take => exact absurd he (by unfold enabled; decide)
    | waited => exact absurd he (by unfold enabled; decide)
    | fnReturn => exact absurd he (by unfold enabled; decide)
    | finish => exact absurd he (by unfold enabled; decide)

example : ∃ k, 3 ≤ k ∧ (demoRun.st k).inst = false ∧ (demoRun.st k).live = 0 :=
  unheld_instance_is_eventually_stopped demoRun demoRun_fair 1
    (fun k hk a ha => by
      match k, hk with
      | 1, _ => cases ha; trivial
      | 2, _ => cases ha; trivial
      | 3, _ => cases ha; trivial
      | 4, _ => cases ha; trivial
      | 5, _ => cases ha; trivial
      | 6, _ => cases ha; trivial
      | k + 7, _ => cases ha)
    3 (by omega) (by decide)

/-! non-vacuity: two holders, the second arrives after the watcher took the first wait group; the
    instance is stopped only after both are done; a Do during stopping is refused, then a fresh instance -/
example : (sys.run sys.init [.do_, .take, .do_, .done 0, .waited, .take, .done 1, .waited, .take]).map
    (fun s => (s.stopClosed, s.live, s.started, (BB.Worker.step s .do_).isSome)) = some (true, 1, 1, false) := by decide
example : (sys.run sys.init [.do_, .take, .done 0, .waited, .take, .fnReturn, .finish, .do_]).map
    (fun s => (s.inst, s.stopClosed, s.live, s.started)) = some (true, false, 1, 2) := by decide

end BB.Props.C17
