/-
  C17 — Worker: one running instance while held, stopped only after every holder is done.
  Theorems for every reachable state: any number of concurrent holders, any interleaving of Do and
  done calls with the instance starting, the watcher taking wait groups, being told to stop, exiting.
  Contract assumed of the supplied function: it returns only after its stop channel is closed.
-/
import BB.Model.Worker

namespace BB.Props.C17
open BB.Worker BB.LTS

structure Inv (s : St) : Prop where
  noInst  : s.inst = false → s.watcher = none ∧ s.wgCur = none ∧ (∀ n ∈ s.cnt, n = 0) ∧ s.live = 0 ∧
              s.stopClosed = false ∧ s.fnReturned = false
  hasInst : s.inst = true → s.watcher ≠ none ∧ s.live = (if s.fnReturned then 0 else 1)
  stopped : s.stopClosed = true → s.watcher = some .stopping ∧ s.wgCur = none ∧ (∀ n ∈ s.cnt, n = 0)
  stopping : s.watcher = some .stopping → s.stopClosed = true
  curValid : ∀ id, s.wgCur = some id → id < s.cnt.length
  positive : ∀ id n, s.cnt[id]? = some (n + 1) → s.wgCur = some id ∨ s.watcher = some (.waiting id)
  retStop : s.fnReturned = true → s.stopClosed = true
  waitValid : ∀ id, s.watcher = some (.waiting id) → id < s.cnt.length

theorem inv_init : Inv sys.init := by
  constructor <;> simp [sys]

theorem mem_set_zero {l : List Nat} {id v : Nat} (h : ∀ n ∈ l, n = 0) (hv : v = 0) : ∀ n ∈ l.set id v, n = 0 := by
  intro n hn
  rcases List.mem_or_eq_of_mem_set hn with hn | rfl
  · exact h n hn
  · exact hv

theorem inv_step (s : St) (a : Act) (s' : St) (h : Inv s) (hs : sys.step s a = some s') : Inv s' := by
  simp only [sys] at hs
  cases a with
  | do_ =>
    simp only [step] at hs
    split at hs
    · cases hs
    · rename_i hmu
      have hnotstopping : s.watcher ≠ some .stopping := by simpa [muHeld] using hmu
      have hnsc : s.stopClosed = false := by
        cases hx : s.stopClosed
        · rfl
        · exact absurd (h.stopped hx).1 hnotstopping
      by_cases hi : s.inst = true
      · simp only [hi, if_true] at hs
        obtain ⟨hw, hl⟩ := h.hasInst hi
        split at hs
        · rename_i id hcur
          cases hs
          have hidl := h.curValid id hcur
          refine ⟨by simp [hi], fun _ => ⟨hw, hl⟩, (fun hx => absurd hx (by simp [hnsc])), h.stopping, ?_, ?_, h.retStop, (fun id' h' => by simp only at h' ⊢; rw [List.length_set]; exact h.waitValid id' h')⟩
          · intro id' h'; simp only at h' ⊢; rw [List.length_set]; exact h.curValid id' h'
          · intro id' n hn
            simp only at hn ⊢
            by_cases he : id = id'
            · subst he; exact Or.inl hcur
            · rw [List.getElem?_set_ne he] at hn; exact h.positive id' n hn
        · rename_i hcur
          cases hs
          refine ⟨by simp [hi], fun _ => ⟨hw, hl⟩, (fun hx => absurd hx (by simp [hnsc])), h.stopping, ?_, ?_, h.retStop, (fun id' h' => by have := h.waitValid id' h'; simp only [List.length_append, List.length_singleton]; omega)⟩
          · intro id' h'; simp only [Option.some.injEq] at h'; subst h'; simp
          · intro id' n hn
            simp only at hn ⊢
            by_cases hlt : id' < s.cnt.length
            · rw [List.getElem?_append_left hlt] at hn
              rcases h.positive id' n hn with h1 | h1
              · rw [hcur] at h1; cases h1
              · exact Or.inr h1
            · have : id' = s.cnt.length := by
                have := (List.getElem?_eq_some_iff.mp hn).1
                simp at this; omega
              exact Or.inl (by rw [this])
      · have hi' : s.inst = false := by simpa using hi
        obtain ⟨n1, n2, n3, n4, n5, n6⟩ := h.noInst hi'
        simp only [hi', Bool.false_eq_true, if_false, n2] at hs
        cases hs
        refine ⟨by simp, by simp [n4], by simp, by simp, ?_, ?_, by simp, by simp⟩
        · intro id' h'; simp only [Option.some.injEq] at h'; subst h'; simp
        · intro id' n hn
          simp only at hn ⊢
          by_cases hlt : id' < s.cnt.length
          · rw [List.getElem?_append_left hlt] at hn
            have := n3 _ (List.mem_of_getElem? hn); omega
          · have : id' = s.cnt.length := by
              have := (List.getElem?_eq_some_iff.mp hn).1
              simp at this; omega
            exact Or.inl (by rw [this])
  | done id =>
    simp only [step] at hs
    split at hs
    · rename_i n hn
      cases hs
      have hpos := h.positive id n hn
      have hinst : s.inst = true := by
        cases hx : s.inst
        · have := (h.noInst hx).2.2.1 _ (List.mem_of_getElem? hn); omega
        · rfl
      have hnsc : s.stopClosed = false := by
        cases hx : s.stopClosed
        · rfl
        · have := (h.stopped hx).2.2 _ (List.mem_of_getElem? hn); omega
      refine ⟨(fun hx => absurd hx (by simp [hinst])), h.hasInst, (fun hx => absurd hx (by simp [hnsc])), h.stopping, ?_, ?_, h.retStop, (fun id' h' => by simp only at h' ⊢; rw [List.length_set]; exact h.waitValid id' h')⟩
      · intro id' h'; simp only at h' ⊢; rw [List.length_set]; exact h.curValid id' h'
      · intro id' m hm
        simp only at hm ⊢
        by_cases he : id = id'
        · subst he; exact hpos
        · rw [List.getElem?_set_ne he] at hm; exact h.positive id' m hm
    · cases hs
  | take =>
    simp only [step] at hs
    split at hs
    · rename_i hw
      have hinst : s.inst = true := by
        cases hx : s.inst
        · have := (h.noInst hx).1; rw [hw] at this; cases this
        · rfl
      have hnsc : s.stopClosed = false := by
        cases hx : s.stopClosed
        · rfl
        · have := (h.stopped hx).1; rw [hw] at this; cases this
      split at hs
      · rename_i id hcur
        cases hs
        refine ⟨(fun hx => absurd hx (by simp [hinst])), fun _ => ⟨by simp, (h.hasInst hinst).2⟩,
          (fun hx => absurd hx (by simp [hnsc])), by simp, by simp, ?_, h.retStop,
          (fun id' h' => by simp only [Option.some.injEq, WPc.waiting.injEq] at h'; subst h'; exact h.curValid _ hcur)⟩
        intro id' n hn
        rcases h.positive id' n hn with h1 | h1
        · rw [hcur] at h1; cases h1; exact Or.inr rfl
        · rw [hw] at h1; cases h1
      · rename_i hcur
        cases hs
        have hzero : ∀ n ∈ s.cnt, n = 0 := by
          intro n hn
          obtain ⟨i, hi, rfl⟩ := List.mem_iff_getElem.mp hn
          cases hv : s.cnt[i] with
          | zero => rfl
          | succ m =>
            rcases h.positive i m (by rw [List.getElem?_eq_getElem hi, hv]) with h1 | h1
            · rw [hcur] at h1; cases h1
            · rw [hw] at h1; cases h1
        refine ⟨(fun hx => absurd hx (by simp [hinst])), fun _ => ⟨by simp, (h.hasInst hinst).2⟩,
          fun _ => ⟨rfl, hcur, hzero⟩, fun _ => rfl, by simp [hcur], ?_, fun _ => rfl, by simp⟩
        intro id' n hn
        have := hzero _ (List.mem_of_getElem? hn); omega
    · cases hs
  | waited =>
    simp only [step] at hs
    split at hs
    · rename_i id hw
      split at hs
      · rename_i hz
        cases hs
        have hinst : s.inst = true := by
          cases hx : s.inst
          · have := (h.noInst hx).1; rw [hw] at this; cases this
          · rfl
        have hnsc : s.stopClosed = false := by
          cases hx : s.stopClosed
          · rfl
          · have := (h.stopped hx).1; rw [hw] at this; cases this
        refine ⟨(fun hx => absurd hx (by simp [hinst])), fun _ => ⟨by simp, (h.hasInst hinst).2⟩,
          (fun hx => absurd hx (by simp [hnsc])), by simp, h.curValid, ?_, h.retStop, by simp⟩
        intro id' n hn
        rcases h.positive id' n hn with h1 | h1
        · exact Or.inl h1
        · rw [hw] at h1; cases h1; rw [hz] at hn; cases hn
      · cases hs
    · cases hs
  | fnReturn =>
    simp only [step] at hs
    split at hs
    · rename_i hc
      simp only [Bool.and_eq_true, Bool.not_eq_true'] at hc
      obtain ⟨⟨hi, hr⟩, hsc⟩ := hc
      cases hs
      have hl := (h.hasInst hi).2
      simp only [hr, Bool.false_eq_true, if_false] at hl
      refine ⟨(fun hx => absurd hx (by simp [hi])), fun _ => ⟨(h.hasInst hi).1, by simp [hl]⟩, h.stopped, h.stopping,
        h.curValid, h.positive, fun _ => hsc, h.waitValid⟩
    · cases hs
  | finish =>
    simp only [step] at hs
    split at hs
    · rename_i hc
      simp only [Bool.and_eq_true, decide_eq_true_eq] at hc
      obtain ⟨hw, hr⟩ := hc
      cases hs
      have hsc := h.stopping hw
      obtain ⟨_, s2, s3⟩ := h.stopped hsc
      have hinst : s.inst = true := by
        cases hx : s.inst
        · have := (h.noInst hx).1; rw [hw] at this; cases this
        · rfl
      have hl := (h.hasInst hinst).2
      simp only [hr, if_true] at hl
      refine ⟨fun _ => ⟨rfl, s2, s3, hl, rfl, rfl⟩, by simp, by simp, by simp, h.curValid, ?_, by simp, by simp⟩
      intro id' n hn
      have := s3 _ (List.mem_of_getElem? hn); omega
    · cases hs

theorem inv_reach : ∀ s, Reach sys s → Inv s := invariant sys Inv inv_init inv_step

theorem held_pos {s : St} (hh : held s = true) : ∃ (id n : Nat), s.cnt[id]? = some (n + 1) := by
  simp only [held, List.any_eq_true, decide_eq_true_eq] at hh
  obtain ⟨x, hx, hpos⟩ := hh
  obtain ⟨i, hi, rfl⟩ := List.mem_iff_getElem.mp hx
  exact ⟨i, s.cnt[i] - 1, by rw [List.getElem?_eq_getElem hi]; congr 1; omega⟩

/-- never two instances of the function at once -/
theorem single_instance (s : St) (h : Reach sys s) : s.live ≤ 1 := by
  have hi := inv_reach s h
  cases hx : s.inst
  · have := (hi.noInst hx).2.2.2.1; omega
  · have := (hi.hasInst hx).2; split at this <;> omega

/-- while any done function is outstanding, an instance exists, its function is running and its stop
    channel is open -/
theorem held_implies_running_open (s : St) (h : Reach sys s) (hh : held s = true) :
    s.inst = true ∧ s.stopClosed = false ∧ s.fnReturned = false ∧ s.live = 1 := by
  have hi := inv_reach s h
  obtain ⟨id, n, hn⟩ := held_pos hh
  have hmem := List.mem_of_getElem? hn
  have hinst : s.inst = true := by
    cases hx : s.inst
    · have := (hi.noInst hx).2.2.1 _ hmem; omega
    · rfl
  have hnsc : s.stopClosed = false := by
    cases hx : s.stopClosed
    · rfl
    · have := (hi.stopped hx).2.2 _ hmem; omega
  have hnr : s.fnReturned = false := by
    cases hx : s.fnReturned
    · rfl
    · have := hi.retStop hx; rw [hnsc] at this; cases this
  refine ⟨hinst, hnsc, hnr, ?_⟩
  have := (hi.hasInst hinst).2
  simpa [hnr] using this

/-- the stop channel is closed only when every done function handed out so far has been called -/
theorem stop_after_all_done (s : St) (h : Reach sys s) (hs : s.stopClosed = true) : held s = false := by
  have := ((inv_reach s h).stopped hs).2.2
  cases hh : held s
  · rfl
  · obtain ⟨id, n, hn⟩ := held_pos hh
    have := this _ (List.mem_of_getElem? hn); omega

/-- a Do that arrives while the instance is stopping cannot proceed (it blocks on the mutex) … -/
theorem do_blocked_while_stopping (s : St) (hw : s.watcher = some .stopping) : sys.step s .do_ = none := by
  simp [sys, step, muHeld, hw]

/-- … and once the watcher has finished, the next Do starts a fresh instance -/
theorem fresh_instance_after_stop (s s' s'' : St) (h : Reach sys s) (hf : sys.step s .finish = some s')
    (hd : sys.step s' .do_ = some s'') :
    s'.inst = false ∧ s''.inst = true ∧ s''.stopClosed = false ∧ s''.started = s.started + 1 ∧ s''.live = 1 := by
  have hi' := inv_step s .finish s' (inv_reach s h) hf
  simp only [sys, step] at hf
  split at hf
  · cases hf
    have hn := hi'.noInst rfl
    simp only [sys, step, muHeld] at hd
    simp only at hn
    simp only [hn.2.1, hn.2.2.2.1] at hd
    simp at hd
    cases hd
    simp
  · cases hf

/-- every started instance is eventually told to stop once nobody holds it: with no holder
    outstanding the system is never stuck before the instance is gone — some watcher or function
    step is enabled (progress half of the liveness clause) -/
theorem unheld_not_stuck (s : St) (h : Reach sys s) (hi : s.inst = true) (hh : held s = false) :
    ∃ a, (sys.step s a).isSome = true ∧ a ≠ .do_ := by
  have inv := inv_reach s h
  have hz : ∀ id, id < s.cnt.length → s.cnt[id]? = some 0 := by
    intro id hid
    simp only [held] at hh
    have := (List.any_eq_false.mp hh) s.cnt[id] (List.getElem_mem hid)
    rw [List.getElem?_eq_getElem hid]; congr 1; simpa using this
  cases hw : s.watcher with
  | none => exact absurd hw (inv.hasInst hi).1
  | some pc =>
    cases pc with
    | top =>
      cases hc : s.wgCur with
      | some id => exact ⟨.take, by simp [sys, step, hw, hc], by simp⟩
      | none => exact ⟨.take, by simp [sys, step, hw, hc], by simp⟩
    | waiting id =>
      have hid : id < s.cnt.length := inv.waitValid id hw
      exact ⟨.waited, by simp [sys, step, hw, hz id hid], by simp⟩
    | stopping =>
      have hsc := inv.stopping hw
      cases hr : s.fnReturned
      · exact ⟨.fnReturn, by simp [sys, step, hi, hr, hsc], by simp⟩
      · exact ⟨.finish, by simp [sys, step, hw, hr], by simp⟩

/-! non-vacuity: two holders, the second arrives after the watcher took the first wait group; the
    instance is stopped only after both are done; a Do during stopping is refused, then a fresh instance -/
example : (sys.run sys.init [.do_, .take, .do_, .done 0, .waited, .take, .done 1, .waited, .take]).map
    (fun s => (s.stopClosed, s.live, s.started, (BB.Worker.step s .do_).isSome)) = some (true, 1, 1, false) := by decide
example : (sys.run sys.init [.do_, .take, .done 0, .waited, .take, .fnReturn, .finish, .do_]).map
    (fun s => (s.inst, s.stopClosed, s.live, s.started)) = some (true, false, 1, 2) := by decide

end BB.Props.C17
