/-
  C03 — Buffer retention (trace level).  The theorems about the pure cleaner functions are in
  `BB/Props/C03Cleaners.lean` (same namespace).  Everything here is for every reachable state of the
  L1 model: every number of consumers, every interleaving of Put/Get/Commit/Rollback/NewConsumer/
  Close with cleaner runs.
-/
import BB.Props.C03Cleaners
import BB.Proofs.Retention

namespace BB.Props.C03
open BB.Cleaner BB.Buffer

/-- Under the default cleaner, no value is removed while a registered consumer has not committed
    past it — uncommitted reads (`delta`) do not count, and it holds for every interleaving. -/
theorem default_never_evicts (ops : List Op) (hd : ∀ op ∈ ops, DefaultOnly op) :
    NoEvict (run init ops) := by
  suffices h : ∀ s, NoEvict s → NoEvict (run s ops) from h init (by intro k hk; simp [init] at hk)
  induction ops with
  | nil => intro s h; exact h
  | cons op ops ih =>
    intro s h
    exact ih (fun o ho => hd o (by simp [ho])) _ (noEvict_step h op (hd op (by simp)))

/-- hence a registered consumer never gets an offset error, however far ahead the others are -/
theorem default_never_past (ops : List Op) (hd : ∀ op ∈ ops, DefaultOnly op) (c : Nat) :
    getTry (run init ops) c ≠ .err .past := by
  have h := default_never_evicts ops hd
  intro hp
  unfold getTry at hp
  cases hk : (run init ops).cons[c]? with
  | none => simp [hk] at hp
  | some k =>
    simp only [hk] at hp
    by_cases h1 : k.cancelled = true
    · simp [h1] at hp
    · by_cases h2 : (run init ops).closed = true
      · simp [h1, h2] at hp
      · by_cases h3 : k.registered = true
        · have := h k (List.mem_of_getElem? hk) h3
          have hlt : ¬ k.committed + k.delta < (run init ops).base := by omega
          simp only [h1, h2, h3, hlt] at hp
          revert hp
          cases (run init ops).buf[k.committed + k.delta - (run init ops).base]? <;> simp
        · simp [h1, h2, h3] at hp

/-- nothing is removed while no consumer is registered -/
theorem no_consumer_no_removal (s : St) (h : ∀ k ∈ s.cons, k.registered = false) :
    (cleanDefault s).1.base = s.base ∧ (cleanDefault s).1.buf = s.buf := by
  have : offsets s = [] := by
    unfold offsets
    have : s.cons.filter (·.registered) = [] := by
      apply List.filter_eq_nil_iff.mpr
      intro k hk; simp [h k hk]
    simp [this]
  have hc : clampShift 0 s.buf.length = 0 := by simp [clampShift]; omega
  simp [cleanDefault, clean, this, defaultCleaner_nil, hc]

/-- Under ANY cleaner (arbitrary `clean k`, forced trims of FixedBufferCleaner): once a consumer's
    next value has been evicted, every later Get of it is an error — never a value — for every
    continuation by any threads. -/
theorem evicted_errors_forever (s : St) (c : Nat) (h : Evicted s c) (ops : List Op) :
    ∃ e, getTry (run s ops) c = .err e := by
  have hE : Evicted (run s ops) c := by
    induction ops generalizing s with
    | nil => exact h
    | cons op ops ih => exact ih _ (evicted_step h op)
  obtain ⟨k, hk, hlt⟩ := hE
  unfold getTry
  simp only [hk]
  by_cases h1 : k.cancelled = true
  · exact ⟨.canceled, by simp [h1]⟩
  · by_cases h2 : (run s ops).closed = true
    · exact ⟨.canceled, by simp [h1, h2]⟩
    · by_cases h3 : k.registered = true
      · exact ⟨.past, by simp [h1, h2, h3, hlt]⟩
      · exact ⟨.unknownConsumer, by simp [h1, h2, h3]⟩

/-- a consumer at or beyond the trim point is unaffected: it still gets exactly `log[pos]` -/
theorem unaffected_gets_log (ops : List Op) (c : Nat) (v : Nat)
    (hv : getTry (run init ops) c = .val v) :
    ∃ k, (run init ops).cons[c]? = some k ∧ (run init ops).log[k.committed + k.delta]? = some v := by
  obtain ⟨k, hk, _, _, _, _, hl⟩ := getTry_val (inv_run inv_init ops) hv
  exact ⟨k, hk, hl⟩

/-- Slice and Size are the not-yet-evicted suffix of the put order; Diff is the number of values
    put minus the read position, so it exceeds Size exactly when the consumer fell behind. -/
theorem slice_size_diff (ops : List Op) :
    let s := run init ops
    s.buf = s.log.drop s.base ∧ size s = s.log.length - s.base ∧
    ∀ c k, s.cons[c]? = some k → k.registered = true →
      diff s c = some ((s.log.length : Int) - ((k.committed : Int) + k.delta)) ∧
      ((diff s c).get! > (size s : Int) ↔ k.committed + k.delta < s.base) := by
  intro s
  have hI : Inv s := inv_run inv_init ops
  refine ⟨hI.buf_eq, buf_length hI, ?_⟩
  intro c k hk hr
  have hb := hI.base_le
  have hlen := buf_length hI
  have hd : diff s c = some ((s.log.length : Int) - ((k.committed : Int) + k.delta)) := by
    simp only [diff, hk, hr, if_true]
    congr 1
    omega
  refine ⟨hd, ?_⟩
  rw [hd]
  simp only [Option.get!_some, size]
  omega

/-! non-vacuity: a forced trim past a consumer with an uncommitted read -/
def exampleTrace : List Op :=
  [.newConsumer, .newConsumer, .put [10, 11, 12, 13], .get 0, .get 1, .get 1, .get 1, .commit 1, .cleanFixed 2 1]

example : Evicted (run init exampleTrace) 0 :=
  ⟨{ committed := 0, delta := 1, start := 0, registered := true, cancelled := false }, by decide, by decide⟩

example : getTry (run init exampleTrace) 0 = .err .past ∧ getTry (run init exampleTrace) 1 = .val 13 ∧
    (run init exampleTrace).buf = [13] := by decide

example : defaultCleaner 5 [3, -1, 2, 7] = 2 ∧ defaultCleaner 5 [3, 0, 2] = 0 ∧
    defaultCleaner 5 [-1, -2] = 0 ∧ fixedCleaner 4 6 5 [1] = -1 := by decide

end BB.Props.C03
