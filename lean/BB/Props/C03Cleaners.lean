/-
  C03 — Buffer retention: nothing unread is evicted; a lagging consumer fails loudly.
  Property theorems only (helpers live in BB/Proofs).  Quantification: every size, every list of
  offsets (negative, zero, = size, > size), every max/target, every trace of L1 operations.
-/
import BB.Proofs.Buffer

namespace BB.Props.C03
open BB.Cleaner BB.Buffer

/-! ## the cleaner functions -/

/-- an offset of 0 (a consumer that committed nothing of the retained buffer) forbids any removal -/
theorem defaultCleaner_zero (size : Int) (offs : List Int) (h : (0 : Int) ∈ offs) :
    defaultCleaner size offs = 0 := by
  unfold defaultCleaner; rw [fold_zero offs _ h]

/-- no active (non-negative) consumer: nothing may be removed; in particular with no consumer at all -/
theorem defaultCleaner_no_active (size : Int) (offs : List Int) (h : ∀ o ∈ offs, o < 0) :
    defaultCleaner size offs = 0 := by
  have h0 : ∀ o ∈ offs, o ≠ 0 := fun o ho => by have := h o ho; omega
  obtain ⟨l', a', he, _, _, _, h4⟩ := fold_some offs size false h0
  unfold defaultCleaner; rw [he]
  have : a' = false := by
    cases a' with
    | false => rfl
    | true =>
      rcases h4.mp rfl with h | ⟨o, ho, hp⟩
      · cases h
      · have := h o ho; omega
  simp [this]

theorem defaultCleaner_nil (size : Int) : defaultCleaner size [] = 0 := by
  simp [defaultCleaner]

/-- exact specification when no offset is zero and some offset is positive: the result is the
    minimum of `size` and the positive offsets -/
theorem defaultCleaner_spec (size : Int) (offs : List Int) (h0 : (0 : Int) ∉ offs)
    (hpos : ∃ o ∈ offs, 0 < o) :
    defaultCleaner size offs ≤ size ∧
    (∀ o ∈ offs, 0 < o → defaultCleaner size offs ≤ o) ∧
    (defaultCleaner size offs = size ∨ (defaultCleaner size offs ∈ offs ∧ 0 < defaultCleaner size offs)) := by
  have h0' : ∀ o ∈ offs, o ≠ 0 := fun o ho he => h0 (he ▸ ho)
  obtain ⟨l', a', he, h1, h2, h3, h4⟩ := fold_some offs size false h0'
  have ha : a' = true := h4.mpr (Or.inr hpos)
  unfold defaultCleaner; rw [he]; simp only [ha, if_true]
  exact ⟨h1, h2, h3⟩

/-- bounds for every input with a non-negative size: `0 ≤ r ≤ size`, and `r` never exceeds a
    non-negative offset -/
theorem defaultCleaner_bounds (size : Int) (offs : List Int) (hs : 0 ≤ size) :
    0 ≤ defaultCleaner size offs ∧ defaultCleaner size offs ≤ size ∧
    ∀ o ∈ offs, 0 ≤ o → defaultCleaner size offs ≤ o := by
  by_cases h0 : (0 : Int) ∈ offs
  · rw [defaultCleaner_zero size offs h0]
    exact ⟨Int.le_refl _, hs, fun o _ ho => ho⟩
  · by_cases hpos : ∃ o ∈ offs, 0 < o
    · obtain ⟨h1, h2, h3⟩ := defaultCleaner_spec size offs h0 hpos
      refine ⟨?_, h1, ?_⟩
      · rcases h3 with h | ⟨_, h⟩ <;> omega
      · intro o ho hge
        have : o ≠ 0 := fun he => h0 (he ▸ ho)
        exact h2 o ho (by omega)
    · have hneg : ∀ o ∈ offs, o < 0 := by
        intro o ho
        have h1 : ¬ 0 < o := fun hp => hpos ⟨o, ho, hp⟩
        have h2 : o ≠ 0 := fun he => h0 (he ▸ ho)
        omega
      rw [defaultCleaner_no_active size offs hneg]
      refine ⟨Int.le_refl _, hs, ?_⟩
      intro o ho hge; have := hneg o ho; omega

/-- the result does not depend on the order of the offsets (Go iterates a map) -/
theorem defaultCleaner_perm (size : Int) {offs offs' : List Int} (h : offs.Perm offs') :
    defaultCleaner size offs = defaultCleaner size offs' := by
  unfold defaultCleaner
  rw [List.Perm.foldl_eq' h (fun x _ y _ z => defaultStep_comm z x y)]

/-- `FixedBufferCleaner(max,target)`: forced trim to `target` above `max`, else the default -/
theorem fixedCleaner_spec (max target size : Int) (offs : List Int) :
    (size > max → fixedCleaner max target size offs = size - target) ∧
    (size ≤ max → fixedCleaner max target size offs = defaultCleaner size offs) := by
  unfold fixedCleaner
  constructor
  · intro h; simp [h]
  · intro h; have : ¬ size > max := by omega
    simp [this]

theorem fixedCleaner_perm (max target size : Int) {offs offs' : List Int} (h : offs.Perm offs') :
    fixedCleaner max target size offs = fixedCleaner max target size offs' := by
  unfold fixedCleaner; rw [defaultCleaner_perm size h]

/-- the clamp of `cleanupLogic`: `min(max(k,0), len)` -/
theorem clampShift_spec (k : Int) (len : Nat) :
    (k ≤ 0 → clampShift k len = 0) ∧ (0 < k → k ≤ len → (clampShift k len : Int) = k) ∧
    ((len : Int) < k → clampShift k len = len) := by
  unfold clampShift
  refine ⟨?_, ?_, ?_⟩
  · intro h
    by_cases h1 : k > (len : Int)
    · simp [h1]; omega
    · simp [h1, h]
  · intro h1 h2
    have : ¬ k > (len : Int) := by omega
    have h3 : ¬ k ≤ 0 := by omega
    simp [this, h3]; omega
  · intro h; simp [h]

