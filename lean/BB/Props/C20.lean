/-
  C20 — LinearAttempt: at most count values, first immediately, always closed.
  Theorems for every reachable state: every count, every receiver pace, every instant of cancellation
  relative to the ticker, the re-check and the send.
-/
import BB.Model.Attempt
import BB.Core.Fair

namespace BB.Props.C20
open BB.Attempt BB.LTS

/-- strictly increasing list of timestamps bounded by `hi` -/
def Sorted : List Nat → Prop
  | [] => True
  | [_] => True
  | a :: b :: rest => a < b ∧ Sorted (b :: rest)

theorem sorted_append {l : List Nat} {t : Nat} (h : Sorted l) (hlt : ∀ x ∈ l, x < t) : Sorted (l ++ [t]) := by
  induction l with
  | nil => simp [Sorted]
  | cons a rest ih =>
    cases rest with
    | nil => simp [Sorted]; exact hlt a (by simp)
    | cons b rest' =>
      simp only [List.cons_append, Sorted] at h ⊢
      exact ⟨h.1, ih h.2 (fun x hx => hlt x (by simp [hx]))⟩

structure Inv (count : Nat) (s : St) : Prop where
  cnt      : s.count = count
  sentLen  : s.sent.length = (if s.sent = [] then 0 else s.i + 1)
  iLe      : s.sent ≠ [] → s.i + 1 ≤ max count 1
  running  : (s.pc = .top ∨ (∃ t, s.pc = .ticked t) ∨ (∃ t, s.pc = .checked t)) → s.i + 1 < count ∧ s.closed = false ∧ s.sent ≠ []
  exitedC  : s.pc = .exited → s.closed = true
  noneC    : s.pc = .none → s.closed = true
  ticks    : ∀ x ∈ s.sent, x ≤ s.lastTick
  pending  : ∀ t, (s.pc = .ticked t ∨ s.pc = .checked t) → t = s.lastTick ∧ ∀ x ∈ s.sent, x < t
  sorted   : Sorted s.sent
  bufSent  : ∀ v, s.buf = some v → v ∈ s.sent
  flow     : s.got ++ (match s.buf with | some v => [v] | none => []) = s.sent
  afterC   : s.sentAfterCancel ≤ 1 ∧ (s.sentAfterCancel = 1 → s.cancelled = true) ∧
             (s.cancelled = true → s.sentAfterCancel = 1 → ¬ ∃ t, s.pc = .checked t) ∧
             (s.cancelled = false → s.sentAfterCancel = 0)

theorem inv_init (count : Nat) (pre : Bool) : Inv count (start count pre) := by
  unfold start
  split
  · constructor <;> simp [Sorted]
  · split
    · rename_i h1 h2
      constructor <;> simp [Sorted]
      omega
    · rename_i h1 h2
      constructor <;> simp [Sorted]
      · omega
      · omega

theorem inv_step (count : Nat) (s : St) (a : Act) (s' : St) (h : Inv count s) (hs : step s a = some s') : Inv count s' := by
  cases a with
  | cancel =>
    simp only [step] at hs; cases hs
    refine { h with afterC := ?_ }
    obtain ⟨a1, a2, a3, a4⟩ := h.afterC
    refine ⟨a1, fun _ => rfl, ?_, by simp⟩
    intro _ h1
    by_cases hc : s.cancelled = true
    · exact a3 hc h1
    · have := a4 (by simpa using hc); simp only at h1; omega
  | recv =>
    simp only [step] at hs
    split at hs
    · rename_i v hb
      cases hs
      refine { h with bufSent := by simp, flow := ?_ }
      have := h.flow; rw [hb] at this; simpa using this
    · cases hs
  | tick =>
    simp only [step] at hs
    split at hs
    · rename_i hp
      cases hs
      have hr := h.running (Or.inl hp)
      refine { h with running := fun _ => hr, exitedC := by simp, noneC := by simp, ticks := ?_, pending := ?_, afterC := ?_ }
      · intro x hx; have := h.ticks x hx; simp only; omega
      · intro t ht
        simp only [Pc.ticked.injEq, reduceCtorEq, or_false] at ht
        subst ht
        exact ⟨rfl, fun x hx => by have := h.ticks x hx; omega⟩
      · obtain ⟨a1, a2, a3, a4⟩ := h.afterC
        exact ⟨a1, a2, fun _ _ => by simp, a4⟩
    · cases hs
  | ctxdone =>
    simp only [step] at hs
    split at hs
    · cases hs
      obtain ⟨a1, a2, a3, a4⟩ := h.afterC
      refine { h with running := by simp, exitedC := fun _ => rfl, noneC := fun _ => rfl, pending := by simp,
                      afterC := ⟨a1, a2, fun _ _ => by simp, a4⟩ }
    · cases hs
  | recheck =>
    simp only [step] at hs
    split at hs
    · rename_i t hp
      obtain ⟨a1, a2, a3, a4⟩ := h.afterC
      split at hs
      · cases hs
        refine { h with running := by simp, exitedC := fun _ => rfl, noneC := fun _ => rfl, pending := by simp,
                        afterC := ⟨a1, a2, fun _ _ => by simp, a4⟩ }
      · rename_i hc
        cases hs
        have hr := h.running (Or.inr (Or.inl ⟨t, hp⟩))
        have hp' := h.pending t (Or.inl hp)
        refine { h with running := fun _ => hr, exitedC := by simp, noneC := by simp, pending := ?_, afterC := ?_ }
        · intro t' ht'
          simp only [reduceCtorEq, Pc.checked.injEq, false_or] at ht'
          subst ht'; exact hp'
        · refine ⟨a1, a2, ?_, a4⟩
          intro hcc; exact absurd hcc hc
    · cases hs
  | trysend =>
    simp only [step] at hs
    split at hs
    · rename_i t hp
      have hr := h.running (Or.inr (Or.inr ⟨t, hp⟩))
      have hp' := h.pending t (Or.inr hp)
      obtain ⟨a1, a2, a3, a4⟩ := h.afterC
      split at hs
      · rename_i hb
        have hflow := h.flow; rw [hb] at hflow; simp at hflow
        have hne : s.sent ≠ [] := hr.2.2
        have hlen := h.sentLen; simp only [hne, if_false] at hlen
        have hsac : (if s.cancelled = true then s.sentAfterCancel + 1 else s.sentAfterCancel) ≤ 1 ∧
            ((if s.cancelled = true then s.sentAfterCancel + 1 else s.sentAfterCancel) = 1 → s.cancelled = true) := by
          by_cases hc : s.cancelled = true
          · rw [if_pos hc]
            have h0 : s.sentAfterCancel = 0 := by
              rcases Nat.eq_zero_or_pos s.sentAfterCancel with h0 | hpos
              · exact h0
              · exact absurd ⟨t, hp⟩ (a3 hc (by omega))
            exact ⟨by omega, fun _ => hc⟩
          · rw [if_neg hc]
            exact ⟨a1, fun h1 => by have := a4 (by simpa using hc); omega⟩
        split at hs
        · cases hs
          refine ⟨h.cnt, by simp; omega, ?_, by simp, fun _ => rfl, by simp, ?_, by simp, ?_, by simp, ?_, ?_⟩
          · intro _; simp only; have := hr.1; omega
          · intro x hx
            simp only [List.mem_append, List.mem_singleton] at hx
            rcases hx with hx | rfl
            · exact h.ticks x hx
            · have := hp'.1; show x ≤ s.lastTick; omega
          · exact sorted_append h.sorted hp'.2
          · simp [hflow]
          · refine ⟨hsac.1, hsac.2, by simp, ?_⟩
            intro hc; simp only at hc; simp [hc]; exact a4 hc
        · rename_i hlt
          cases hs
          refine ⟨h.cnt, by simp; omega, ?_, ?_, by simp, by simp, ?_, by simp, ?_, by simp, ?_, ?_⟩
          · intro _; simp only; have := hr.1; omega
          · intro _; simp only; exact ⟨by simp only [h.cnt] at hlt; omega, hr.2.1, by simp⟩
          · intro x hx
            simp only [List.mem_append, List.mem_singleton] at hx
            rcases hx with hx | rfl
            · exact h.ticks x hx
            · have := hp'.1; show x ≤ s.lastTick; omega
          · exact sorted_append h.sorted hp'.2
          · simp [hflow]
          · refine ⟨hsac.1, hsac.2, by simp, ?_⟩
            intro hc; simp only at hc; simp [hc]; exact a4 hc
      · cases hs
        refine { h with running := fun _ => hr, exitedC := by simp, noneC := by simp, pending := by simp,
                        afterC := ⟨a1, a2, fun _ _ => by simp, a4⟩ }
    · cases hs

theorem inv_reach (count : Nat) (pre : Bool) : ∀ s, Reach (sys count pre) s → Inv count s :=
  invariant (sys count pre) (Inv count) (inv_init count pre) (fun s a s' h hs => inv_step count s a s' h hs)

/-- the first value is available immediately (unless the context was already cancelled) -/
theorem first_immediately (count : Nat) (hc : 0 < count) : (start count false).buf = some 0 ∧ (start count true).closed = true ∧
    (start count true).buf = none := by
  by_cases h : count ≤ 1 <;> simp [start, h]

/-- never more than `count` values in total; never more than one buffered (the slot is an Option);
    timestamps strictly increase; everything received was sent, in order, nothing lost -/
theorem at_most_count (count : Nat) (pre : Bool) (hc : 0 < count) (s : St) (h : Reach (sys count pre) s) :
    s.sent.length ≤ count ∧ Sorted s.sent ∧ s.got ++ (match s.buf with | some v => [v] | none => []) = s.sent := by
  have hi := inv_reach count pre s h
  refine ⟨?_, hi.sorted, hi.flow⟩
  have := hi.sentLen
  by_cases hne : s.sent = []
  · simp [hne]
  · have h2 := hi.iLe hne
    simp only [hne, if_false] at this
    omega

/-- after the context is cancelled at most one further tick is forwarded (so a receiver can obtain at
    most that one plus the one already buffered) -/
theorem at_most_one_after_cancel (count : Nat) (pre : Bool) (s : St) (h : Reach (sys count pre) s) :
    s.sentAfterCancel ≤ 1 := (inv_reach count pre s h).afterC.1

/-- the channel is closed exactly when the goroutine is gone; a goroutine that is still there has
    not yet delivered `count` values -/
theorem closed_iff_goroutine_gone (count : Nat) (pre : Bool) (s : St) (h : Reach (sys count pre) s) :
    (s.pc = .exited ∨ s.pc = .none → s.closed = true) ∧
    (s.closed = false → s.i + 1 < count) := by
  have hi := inv_reach count pre s h
  refine ⟨fun hp => hp.elim hi.exitedC hi.noneC, ?_⟩
  intro hcl
  cases hp : s.pc with
  | none => have := hi.noneC hp; rw [hcl] at this; cases this
  | exited => have := hi.exitedC hp; rw [hcl] at this; cases this
  | top => exact (hi.running (Or.inl hp)).1
  | ticked t => exact (hi.running (Or.inr (Or.inl ⟨t, hp⟩))).1
  | checked t => exact (hi.running (Or.inr (Or.inr ⟨t, hp⟩))).1

/-- the goroutine always has a next step towards closing the channel: after cancellation every
    goroutine state has an enabled step that does not need a receiver (no deadlock on a slow or
    absent receiver), and each such step either exits or moves towards the re-check -/
theorem cancelled_goroutine_not_stuck (count : Nat) (pre : Bool) (s : St) (h : Reach (sys count pre) s)
    (hc : s.cancelled = true) (hcl : s.closed = false) :
    ∃ a, a ≠ .recv ∧ a ≠ .cancel ∧ (step s a).isSome = true := by
  have hi := inv_reach count pre s h
  cases hp : s.pc with
  | none => have := hi.noneC hp; rw [hcl] at this; cases this
  | exited => have := hi.exitedC hp; rw [hcl] at this; cases this
  | top => exact ⟨.ctxdone, by simp, by simp, by simp [step, hp, hc]⟩
  | ticked t => exact ⟨.recheck, by simp, by simp, by simp [step, hp, hc]⟩
  | checked t => exact ⟨.trysend, by simp, by simp, by simp only [step, hp]; cases s.buf <;> simp <;> split <;> simp⟩

/-! ### Liveness: "always closed promptly after the context is cancelled" as a leads-to theorem -/

/-- the producing goroutine's own steps (everything except the environment's cancel and the receiver's recv) -/
def goroutineStep (a : Act) : Prop := a ≠ .recv ∧ a ≠ .cancel

/-- distance of the goroutine from its exit once the context is cancelled -/
def exitRank (s : St) : Nat :=
  match s.pc with
  | .checked _ => 3
  | .top => 2
  | .ticked _ => 1
  | _ => 0

theorem cancelled_stable (s : St) (a : Act) (s' : St) (hs : step s a = some s') (hc : s.cancelled = true) : s'.cancelled = true := by
  cases a <;> simp only [step] at hs
  case cancel => cases hs; rfl
  case recv => split at hs <;> cases hs; exact hc
  case tick => split at hs <;> cases hs; exact hc
  case ctxdone => split at hs <;> cases hs; exact hc
  case recheck =>
    split at hs
    · split at hs <;> cases hs <;> exact hc
    · cases hs
  case trysend =>
    split at hs
    · split at hs
      · split at hs <;> cases hs <;> exact hc
      · cases hs; exact hc
    · cases hs

/-- ALWAYS CLOSED AFTER CANCELLATION.  Along every run in which the goroutine is scheduled weakly fairly (no assumption
    about the receiver: it may be arbitrarily slow or gone), from every point on a state is reached in which the context
    is not cancelled or the channel is closed and the goroutine has exited — the rank drops 3 → 2 → 1 → exit, at most one
    more tick is taken. -/
theorem cancelled_leadsTo_closed (count : Nat) (pre : Bool) (r : Run (sys count pre))
    (hfair : WeakFair (sys count pre) (fun _ a => goroutineStep a) r) :
    ∀ i, ∃ j, i ≤ j ∧ ((r.st j).cancelled = false ∨ ((r.st j).closed = true ∧ ((r.st j).pc = .exited ∨ (r.st j).pc = .none))) := by
  apply leadsTo (sys count pre) (fun _ a => goroutineStep a) r (Inv count)
    (fun s => s.cancelled = false ∨ (s.closed = true ∧ (s.pc = .exited ∨ s.pc = .none))) exitRank hfair
    (fun i => inv_reach count pre _ (run_reach _ r i))
  · -- a goroutine step is enabled
    intro s hi hg
    have hc : s.cancelled = true := by cases h : s.cancelled <;> simp_all
    cases hp : s.pc with
    | none => exact absurd (Or.inr ⟨hi.noneC hp, Or.inr hp⟩) hg
    | exited => exact absurd (Or.inr ⟨hi.exitedC hp, Or.inl hp⟩) hg
    | top => exact ⟨.ctxdone, ⟨by simp, by simp⟩, by simp [enabled, sys, step, hp, hc]⟩
    | ticked t => exact ⟨.recheck, ⟨by simp, by simp⟩, by simp [enabled, sys, step, hp, hc]⟩
    | checked t =>
      refine ⟨.trysend, ⟨by simp, by simp⟩, ?_⟩
      simp only [enabled, sys, step, hp]; cases s.buf <;> simp <;> split <;> simp
  · -- no step increases the rank
    intro s a s' hi hg hs
    have hc : s.cancelled = true := by cases h : s.cancelled <;> simp_all
    cases a <;> simp only [sys, step] at hs
    case cancel => cases hs; right; simp [exitRank]
    case recv => split at hs <;> cases hs; right; simp [exitRank]
    case tick =>
      split at hs
      · rename_i hp; cases hs; right; simp [exitRank, hp]
      · cases hs
    case ctxdone => split at hs <;> cases hs; left; right; simp
    case recheck =>
      split at hs
      · rw [hc] at hs; simp only [↓reduceIte] at hs; cases hs; left; right; simp
      · cases hs
    case trysend =>
      split at hs
      · rename_i t hp
        split at hs
        · split at hs
          · cases hs; left; right; simp
          · cases hs; right; simp [exitRank, hp]
        · cases hs; right; simp [exitRank, hp]
      · cases hs
  · -- every goroutine step decreases it (or closes)
    intro s a s' hi hg hH hs
    have hc : s.cancelled = true := by cases h : s.cancelled <;> simp_all
    cases a <;> simp only [sys, step] at hs
    case cancel => exact absurd rfl hH.2
    case recv => exact absurd rfl hH.1
    case tick =>
      split at hs
      · rename_i hp; cases hs; right; simp [exitRank, hp]
      · cases hs
    case ctxdone => split at hs <;> cases hs; left; right; simp
    case recheck =>
      split at hs
      · rw [hc] at hs; simp only [↓reduceIte] at hs; cases hs; left; right; simp
      · cases hs
    case trysend =>
      split at hs
      · rename_i t hp
        split at hs
        · split at hs
          · cases hs; left; right; simp
          · cases hs; right; simp [exitRank, hp]
        · cases hs; right; simp [exitRank, hp]
      · cases hs

/-- corollary in the words of the property: once the context is cancelled, the channel is eventually closed and the
    producing goroutine has exited, however slow the receiver is -/
theorem closed_promptly_after_cancel (count : Nat) (pre : Bool) (r : Run (sys count pre))
    (hfair : WeakFair (sys count pre) (fun _ a => goroutineStep a) r) (i : Nat) (hc : (r.st i).cancelled = true) :
    ∃ j, i ≤ j ∧ (r.st j).closed = true ∧ ((r.st j).pc = .exited ∨ (r.st j).pc = .none) := by
  obtain ⟨j, hj, hg⟩ := cancelled_leadsTo_closed count pre r hfair i
  have hstable : ∀ k, (r.st (i + k)).cancelled = true := by
    intro k
    induction k with
    | zero => exact hc
    | succ k ih =>
      have hn := r.next (i + k)
      cases ha : r.act (i + k) with
      | none => simp only [ha] at hn; rw [show i + (k + 1) = i + k + 1 by omega, hn]; exact ih
      | some a => simp only [ha] at hn; rw [show i + (k + 1) = i + k + 1 by omega]; exact cancelled_stable _ a _ hn ih
  have hcj : (r.st j).cancelled = true := by have := hstable (j - i); rwa [show i + (j - i) = j by omega] at this
  rcases hg with hg | hg
  · rw [hcj] at hg; cases hg
  · exact ⟨j, hj, hg⟩

/-! a weakly fair run to which the theorem applies: count 3, one tick forwarded, cancellation while the goroutine waits,
    the goroutine takes ctx.Done() and exits; afterwards the run stutters -/
def demoActs : Nat → Option Act
  | 0 => some .tick | 1 => some .recheck | 2 => some .trysend | 3 => some .cancel | 4 => some .ctxdone | _ => none

def demoSt : Nat → St
  | 0 => start 3 false
  | n + 1 => match demoActs n with
    | some a => (step (demoSt n) a).getD (demoSt n)
    | none => demoSt n

theorem demoSt_final (k : Nat) : demoSt (k + 5) = demoSt 5 := by
  induction k with
  | zero => rfl
  | succ k ih => show demoSt (k + 5) = demoSt 5; exact ih

def demoRun : Run (sys 3 false) where
  st := demoSt
  act := demoActs
  start := rfl
  next := by
    intro i
    match i with
    | 0 => show (sys 3 false).step (demoSt 0) _ = some (demoSt 1); decide
    | 1 => show (sys 3 false).step (demoSt 1) _ = some (demoSt 2); decide
    | 2 => show (sys 3 false).step (demoSt 2) _ = some (demoSt 3); decide
    | 3 => show (sys 3 false).step (demoSt 3) _ = some (demoSt 4); decide
    | 4 => show (sys 3 false).step (demoSt 4) _ = some (demoSt 5); decide
    | k + 5 => rfl

theorem demoRun_fair : WeakFair (sys 3 false) (fun _ a => goroutineStep a) demoRun := by
  intro i hen
  by_cases hi : i < 5
  · by_cases h3 : i = 3
    · subst h3; exact ⟨4, by omega, _, rfl, ⟨by decide, by decide⟩⟩
    · refine ⟨if i ≤ 2 then i else 4, by split <;> omega, ?_⟩
      match i, hi, h3 with
      | 0, _, _ => exact ⟨_, rfl, ⟨by decide, by decide⟩⟩
      | 1, _, _ => exact ⟨_, rfl, ⟨by decide, by decide⟩⟩
      | 2, _, _ => exact ⟨_, rfl, ⟨by decide, by decide⟩⟩
      | 4, _, _ => exact ⟨_, rfl, ⟨by decide, by decide⟩⟩
  · exfalso
    obtain ⟨a, hH, he⟩ := hen i (Nat.le_refl _)
    have hst : demoRun.st i = demoSt 5 := by
      have := demoSt_final (i - 5); rwa [show i - 5 + 5 = i by omega] at this
    rw [hst] at he
    cases a with
    | cancel => exact hH.2 rfl
    | recv => exact hH.1 rfl
    | tick => exact absurd he (by unfold enabled; decide)
    | ctxdone => exact absurd he (by unfold enabled; decide)
    | recheck => exact absurd he (by unfold enabled; decide)
    | trysend => exact absurd he (by unfold enabled; decide)

example : ∃ j, 4 ≤ j ∧ (demoRun.st j).closed = true ∧ ((demoRun.st j).pc = .exited ∨ (demoRun.st j).pc = .none) :=
  closed_promptly_after_cancel 3 false demoRun demoRun_fair 4 (by decide)

/-! ### Timestamps: whatever the ticker delivers (finding F7)

`BB.Attempt` abstracts timestamps to tick numbers.  The real `time.Ticker` hands out time values that are NOT guaranteed to be
non-decreasing when ticks are overdue and coalesced (observed at rates ≤ 1µs).  The code therefore keeps the last value it sent
and never forwards an earlier one; as a function on the raw stamps: -/

/-- the values LinearAttempt puts into its channel, given the initial `time.Now()` and the raw stamps of the ticks it forwards -/
def forwarded (first : Nat) : List Nat → List Nat
  | [] => []
  | t :: ts => (if t < first then first else t) :: forwarded (if t < first then first else t) ts

def NonDecreasing : List Nat → Prop
  | [] => True
  | [_] => True
  | a :: b :: rest => a ≤ b ∧ NonDecreasing (b :: rest)

/-- for EVERY sequence of raw stamps the yielded values are non-decreasing, starting from the first value -/
theorem forwarded_stamps_nondecreasing (first : Nat) (raw : List Nat) : NonDecreasing (first :: forwarded first raw) := by
  induction raw generalizing first with
  | nil => trivial
  | cons t ts ih =>
    simp only [forwarded]
    refine ⟨?_, ih _⟩
    split <;> omega

/-- a well-behaved ticker is forwarded unchanged: the guard only acts on stamps that go backwards -/
theorem forwarded_id_of_nondecreasing (first : Nat) (raw : List Nat) (h : NonDecreasing (first :: raw)) : forwarded first raw = raw := by
  induction raw generalizing first with
  | nil => rfl
  | cons t ts ih =>
    have h1 : first ≤ t := by cases ts <;> simp [NonDecreasing] at h <;> omega
    have h2 : NonDecreasing (t :: ts) := by cases ts <;> simp_all [NonDecreasing]
    simp only [forwarded, show ¬ t < first by omega, ↓reduceIte]
    rw [ih t h2]

/-- without the guard the property is false: raw stamps 5, 3 after a first value 1 would be yielded as they are -/
example : ¬ NonDecreasing (1 :: [5, 3]) := by simp [NonDecreasing]
example : forwarded 1 [5, 3] = [5, 5] := by decide

/-! non-vacuity: count 3, slow receiver (one tick is dropped), cancellation between the re-check and the send -/
example : ((sys 3 false).run (start 3 false) [.tick, .recheck, .trysend, .recv, .tick, .recheck, .cancel, .trysend, .ctxdone]).map
    (fun s => (s.sent, s.got, s.closed, s.sentAfterCancel)) = some ([0, 2], [0], true, 1) := by decide
example : ((sys 3 false).run (start 3 false) [.tick, .recheck, .trysend, .recv, .tick, .recheck, .cancel, .trysend]).map
    (fun s => (s.sent, s.got, s.closed, s.sentAfterCancel)) = some ([0, 2], [0], false, 1) := by decide

end BB.Props.C20
