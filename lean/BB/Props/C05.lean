/-
  C05 — A blocked Get / WaitCond always wakes; a failed Get consumes nothing.
  Theorems about the WaitCond transition system with the configuration the code has (`good`): for
  every placement of cancellations, predicate changes (each one critical section that broadcasts)
  and spurious wake-ups relative to every step of the waiter and of its watcher goroutine.

  The model's state space is finite (one waiter, its watcher, the locker, four flags; everything else
  is environment actions), so the inductive steps are discharged by the kernel through exhaustive case
  analysis; the statements themselves quantify over all reachable states / all weakly fair runs of
  unbounded length.  The liveness half uses the ranking-function rule of BB/Core/Fair.lean.
-/
import BB.Model.WaitCond
import BB.Model.Buffer
import BB.Proofs.BufferParam
import BB.Proofs.Buffer
import BB.Core.Fair

namespace BB.Props.C05
open BB.WaitCond BB.LTS

def returnedB (s : St) : Bool := s.pc == .retNil || s.pc == .retErr

/-- the inductive invariant, as a Boolean function of the (finite) state -/
def invB (s : St) : Bool :=
  -- the waiter holds L exactly while it is checking, and never while inside cond.Wait
  ((s.pc == .top || s.pc == .pred) → s.lock == .waiter) &&
  ((s.pc == .parked || s.pc == .notified) → s.lock != .waiter) &&
  -- NO LOST WAKE-UP: a parked, un-notified waiter means the predicate is false, and if the context is
  -- cancelled its watcher has not broadcast yet (so a notification is still coming)
  (s.pc == .parked → (s.p == false && s.w != .unborn && (s.cancelled → s.w != .done))) &&
  ((s.w == .locked) == (s.lock == .watcher)) &&
  (s.derivedCancelled == (s.cancelled || returnedB s)) &&
  ((s.w == .wantLock || s.w == .locked || s.w == .done) → s.derivedCancelled) &&
  (s.pc == .retErr → s.cancelled) &&
  (s.w == .unborn → ((s.pc == .top || s.pc == .retErr) && s.lock == (if s.unlocked then .free else .waiter))) &&
  ((returnedB s && !s.unlocked) → s.lock == .waiter) &&
  (s.unlocked → returnedB s) &&
  (s.unlocked → s.lock != .waiter) &&
  (s.pc == .pred → s.w != .done)

/-- the actions of a given kind, enumerated (mutate carries a Bool) -/
def allActs : List Act := [.cancel, .mutate true, .mutate false, .spurious, .step, .unlock, .wstep]

theorem act_mem_allActs (a : Act) : a ∈ allActs := by
  cases a with
  | mutate v => cases v <;> simp [allActs]
  | _ => simp [allActs]

def allPc : List Pc := [.top, .pred, .parked, .notified, .retNil, .retErr]
def allW : List WPc := [.unborn, .waitDone, .wantLock, .locked, .done]
def allH : List Holder := [.free, .waiter, .watcher]
def allB : List Bool := [true, false]

/-- every state of the model -/
def allStates : List St :=
  allPc.flatMap fun pc => allW.flatMap fun w => allH.flatMap fun l => allB.flatMap fun p => allB.flatMap fun c =>
    allB.flatMap fun d => allB.map fun u => { pc := pc, w := w, lock := l, p := p, cancelled := c, derivedCancelled := d, unlocked := u }

theorem mem_allStates (s : St) : s ∈ allStates := by
  obtain ⟨pc, w, l, p, c, d, u⟩ := s
  simp only [allStates, List.mem_flatMap, List.mem_map]
  exact ⟨pc, by cases pc <;> simp [allPc], w, by cases w <;> simp [allW], l, by cases l <;> simp [allH],
    p, by cases p <;> simp [allB], c, by cases c <;> simp [allB], d, by cases d <;> simp [allB], u, by cases u <;> simp [allB], rfl⟩

/-- a Boolean statement about all states and all actions holds if it evaluates to true on the whole table -/
theorem forall_states_acts (P : St → Act → Bool) (h : (allStates.all fun s => allActs.all fun a => P s a) = true) :
    ∀ s a, P s a = true := by
  intro s a
  have := List.all_eq_true.mp h s (mem_allStates s)
  exact List.all_eq_true.mp this a (act_mem_allActs a)

theorem forall_states (P : St → Bool) (h : (allStates.all P) = true) : ∀ s, P s = true :=
  fun s => List.all_eq_true.mp h s (mem_allStates s)

/-- preservation of the invariant by every action (kernel-evaluated over the whole state table) -/
theorem inv_step_table : (allStates.all fun s => allActs.all fun a =>
    !invB s || (match step good s a with | some s' => invB s' | none => true)) = true := by decide +kernel

theorem inv_step (s : St) (a : Act) (s' : St) (h : invB s = true) (hs : (sys good).step s a = some s') : invB s' = true := by
  have := forall_states_acts _ inv_step_table s a
  simp only [sys] at hs
  simp only [h, hs, Bool.not_true, Bool.false_or] at this
  exact this

theorem inv_reach : ∀ s, Reach (sys good) s → invB s = true :=
  invariant (sys good) (fun s => invB s = true) (by decide) inv_step

/-- WaitCond returns nil only from a state in which the predicate has just been evaluated to true with
    the locker held by the caller -/
theorem nil_only_after_predicate_true (s s' : St) (a : Act) (h : Reach (sys good) s)
    (hs : (sys good).step s a = some s') (hnot : s.pc ≠ .retNil) (hret : s'.pc = .retNil) :
    a = .step ∧ s.pc = .pred ∧ s.p = true ∧ s.lock = .waiter := by
  have hi := inv_reach s h
  have key := forall_states_acts (fun s a => !invB s || (match step good s a with
      | some s' => !(s.pc != .retNil && s'.pc == .retNil) || (a == .step && s.pc == .pred && s.p && s.lock == .waiter)
      | none => true)) (by decide +kernel) s a
  simp only [sys] at hs
  simp only [hi, hs, Bool.not_true, Bool.false_or] at key
  have h1 : (s.pc != .retNil && s'.pc == .retNil) = true := by simp [hnot, hret]
  simp only [h1, Bool.not_true, Bool.false_or, Bool.and_eq_true, beq_iff_eq] at key
  exact ⟨key.1.1.1, key.1.1.2, key.1.2, key.2⟩

/-- otherwise it returns the context's error, and only if the context really is cancelled -/
theorem error_only_if_cancelled (s : St) (h : Reach (sys good) s) (hr : s.pc = .retErr) : s.cancelled = true := by
  have hi := inv_reach s h
  have := forall_states (fun s => !invB s || !(s.pc == .retErr) || s.cancelled) (by decide +kernel) s
  simpa [hi, hr] using this

/-- **No lost wake-up.**  In every reachable state — wherever a Put/commit (`mutate`), a cancellation or
    a spurious broadcast falls relative to the waiter's steps — a waiter that is parked and not yet
    notified has a false predicate, and if its context is cancelled its watcher is still on its way
    to broadcast (it has not finished), holding or about to take the locker. -/
theorem no_lost_wakeup (s : St) (h : Reach (sys good) s) (hp : s.pc = .parked) :
    s.p = false ∧ (s.cancelled = true → s.w = .waitDone ∨ s.w = .wantLock ∨ s.w = .locked) := by
  have hi := inv_reach s h
  have := forall_states (fun s => !invB s || !(s.pc == .parked) ||
      (s.p == false && (!s.cancelled || s.w == .waitDone || s.w == .wantLock || s.w == .locked))) (by decide +kernel) s
  simp only [hi, hp, beq_self_eq_true, Bool.not_true, Bool.false_or, Bool.and_eq_true, beq_iff_eq, Bool.or_eq_true,
    Bool.not_eq_true'] at this
  refine ⟨this.1, fun hc => ?_⟩
  rcases this.2 with ((h1 | h1) | h1) | h1
  · rw [hc] at h1; cases h1
  · exact Or.inl h1
  · exact Or.inr (Or.inl h1)
  · exact Or.inr (Or.inr h1)

/-- the waiter or its watcher can always move unless the waiter is parked with a false predicate and a
    live context (i.e. legitimately waiting) — no stuck state -/
theorem not_stuck (s : St) (h : Reach (sys good) s) (hnr : returnedB s = false) (hwake : s.p = true ∨ s.cancelled = true) :
    (step good s .step).isSome = true ∨ (step good s .wstep).isSome = true := by
  have hi := inv_reach s h
  have := forall_states (fun s => !invB s || returnedB s || !(s.p || s.cancelled) ||
      (step good s .step).isSome || (step good s .wstep).isSome) (by decide +kernel) s
  have hw : (s.p || s.cancelled) = true := by rcases hwake with h | h <;> simp [h]
  simpa [hi, hnr, hw] using this

/-! ### liveness: the call returns -/

def procAct (_ : St) (a : Act) : Prop := a = .step ∨ a = .wstep

/-- ranking function for "cancelled ⇒ returns" -/
def rankC (s : St) : Nat :=
  (match s.pc with | .retNil | .retErr => 0 | .top => 1 | .notified => 2 | .parked => 3 | .pred => 4) +
  (match s.w with | .unborn => 4 | .waitDone => 3 | .wantLock => 2 | .locked => 1 | .done => 0)

/-- **If the context is cancelled, the call returns** (with the context's error unless the predicate
    became true first) — along every weakly fair run, whatever the environment does and even if
    nobody else ever broadcasts. -/
theorem cancelled_leadsTo_return (r : Run (sys good)) (hfair : WeakFair (sys good) procAct r) :
    ∀ i, ∃ j, i ≤ j ∧ (returnedB (r.st j) = true ∨ (r.st j).cancelled = false) := by
  apply leadsTo (sys good) procAct r (fun s => invB s = true) (fun s => returnedB s = true ∨ s.cancelled = false) rankC hfair
  · intro i; exact inv_reach _ (run_reach _ r i)
  · -- some process step is enabled
    intro s hi hng
    have hnr : returnedB s = false := by cases h : returnedB s <;> simp_all
    have hc : s.cancelled = true := by cases h : s.cancelled <;> simp_all
    have := forall_states (fun s => !invB s || returnedB s || !s.cancelled ||
        (step good s .step).isSome || (step good s .wstep).isSome) (by decide +kernel) s
    simp only [hi, hnr, hc, Bool.not_true, Bool.false_or, Bool.or_eq_true] at this
    rcases this with h | h
    · exact ⟨.step, Or.inl rfl, h⟩
    · exact ⟨.wstep, Or.inr rfl, h⟩
  · -- no step increases the rank
    intro s a s' hi hng hs
    have hnr : returnedB s = false := by cases h : returnedB s <;> simp_all
    have hc : s.cancelled = true := by cases h : s.cancelled <;> simp_all
    have := forall_states_acts (fun s a => !invB s || returnedB s || !s.cancelled ||
        (match step good s a with | some s' => returnedB s' || decide (rankC s' ≤ rankC s) | none => true)) (by decide +kernel) s a
    simp only [sys] at hs
    simp only [hi, hnr, hc, hs, Bool.not_true, Bool.false_or, Bool.or_eq_true, decide_eq_true_eq] at this
    rcases this with h | h
    · exact Or.inl (Or.inl h)
    · exact Or.inr h
  · -- every process step decreases it
    intro s a s' hi hng hH hs
    have hnr : returnedB s = false := by cases h : returnedB s <;> simp_all
    have hc : s.cancelled = true := by cases h : s.cancelled <;> simp_all
    have := forall_states_acts (fun s a => !invB s || returnedB s || !s.cancelled || !(a == .step || a == .wstep) ||
        (match step good s a with | some s' => returnedB s' || decide (rankC s' < rankC s) | none => true)) (by decide +kernel) s a
    have ha : (a == Act.step || a == Act.wstep) = true := by rcases hH with h | h <;> simp [h]
    simp only [sys] at hs
    simp only [hi, hnr, hc, ha, hs, Bool.not_true, Bool.false_or, Bool.or_eq_true, decide_eq_true_eq] at this
    rcases this with h | h
    · exact Or.inl (Or.inl h)
    · exact Or.inr h

/-- ranking function for "predicate true ⇒ returns" -/
def rankP (s : St) : Nat :=
  (match s.pc with | .retNil | .retErr => 0 | .pred => 1 | .top => 2 | .notified => 3 | .parked => 4) +
  (match s.w with | .unborn => 4 | .waitDone => 3 | .wantLock => 2 | .locked => 1 | .done => 0)

/-- **If the predicate is (and stays) true, the call returns**: along every weakly fair run, from every
    point either the call has returned or the predicate is false again at some later point. -/
theorem predicate_true_leadsTo_return (r : Run (sys good)) (hfair : WeakFair (sys good) procAct r) :
    ∀ i, ∃ j, i ≤ j ∧ (returnedB (r.st j) = true ∨ (r.st j).p = false) := by
  apply leadsTo (sys good) procAct r (fun s => invB s = true) (fun s => returnedB s = true ∨ s.p = false) rankP hfair
  · intro i; exact inv_reach _ (run_reach _ r i)
  · intro s hi hng
    have hnr : returnedB s = false := by cases h : returnedB s <;> simp_all
    have hp : s.p = true := by cases h : s.p <;> simp_all
    have := forall_states (fun s => !invB s || returnedB s || !s.p ||
        (step good s .step).isSome || (step good s .wstep).isSome) (by decide +kernel) s
    simp only [hi, hnr, hp, Bool.not_true, Bool.false_or, Bool.or_eq_true] at this
    rcases this with h | h
    · exact ⟨.step, Or.inl rfl, h⟩
    · exact ⟨.wstep, Or.inr rfl, h⟩
  · intro s a s' hi hng hs
    have hnr : returnedB s = false := by cases h : returnedB s <;> simp_all
    have hp : s.p = true := by cases h : s.p <;> simp_all
    have := forall_states_acts (fun s a => !invB s || returnedB s || !s.p ||
        (match step good s a with | some s' => returnedB s' || !s'.p || decide (rankP s' ≤ rankP s) | none => true)) (by decide +kernel) s a
    simp only [sys] at hs
    simp only [hi, hnr, hp, hs, Bool.not_true, Bool.false_or, Bool.or_eq_true, decide_eq_true_eq, Bool.not_eq_true'] at this
    rcases this with (h | h) | h
    · exact Or.inl (Or.inl h)
    · exact Or.inl (Or.inr h)
    · exact Or.inr h
  · intro s a s' hi hng hH hs
    have hnr : returnedB s = false := by cases h : returnedB s <;> simp_all
    have hp : s.p = true := by cases h : s.p <;> simp_all
    have := forall_states_acts (fun s a => !invB s || returnedB s || !s.p || !(a == .step || a == .wstep) ||
        (match step good s a with | some s' => returnedB s' || !s'.p || decide (rankP s' < rankP s) | none => true)) (by decide +kernel) s a
    have ha : (a == Act.step || a == Act.wstep) = true := by rcases hH with h | h <;> simp [h]
    simp only [sys] at hs
    simp only [hi, hnr, hp, ha, hs, Bool.not_true, Bool.false_or, Bool.or_eq_true, decide_eq_true_eq, Bool.not_eq_true'] at this
    rcases this with (h | h) | h
    · exact Or.inl (Or.inl h)
    · exact Or.inl (Or.inr h)
    · exact Or.inr h

/-! ### what breaks without the mechanisms (witness traces of the faulty configurations) -/

/-- a watcher that broadcasts WITHOUT taking the locker loses the wake-up: cancellation lands between the
    predicate evaluation and the park, the broadcast hits nobody, the waiter parks forever -/
theorem watcher_without_lock_loses_wakeup :
    ((sys { good with watcherLocks := false }).run {} [.step, .cancel, .wstep, .wstep, .wstep, .step]).map
      (fun s => (s.pc, s.w, s.cancelled)) = some (.parked, .done, true) := by decide

/-- a mutator that changes the predicate without broadcasting leaves the waiter parked although the predicate is true -/
theorem mutator_without_broadcast_loses_wakeup :
    ((sys { good with mutatorBroadcasts := false }).run {} [.step, .step, .mutate true]).map
      (fun s => (s.pc, s.p)) = some (.parked, true) := by decide

/-! ### a failed Get consumes nothing (Buffer model) -/

/-- a Get that does not return a value leaves the consumer's position unchanged, so the next successful
    Get returns the value the failed one would have returned -/
theorem failed_get_no_advance (s : BB.Buffer.St) (c : Nat) (h : ∀ v, BB.Buffer.getTry s c ≠ .val v) :
    BB.Buffer.get s c = (s, BB.Buffer.getTry s c) := by
  unfold BB.Buffer.get
  cases hg : BB.Buffer.getTry s c with
  | val v => exact absurd hg (h v)
  | pending => cases s.cons[c]? <;> rfl
  | err e => cases s.cons[c]? <;> rfl

/-! ### The predicate a parked Get waits for does not look at the values

  `nil` is a legal value (`Put(ctx, nil)`); whether a Get has to wait depends on positions only.  Stated as: renaming the
  values by ANY function `f` (e.g. one that sends a value to the model's stand-in for nil) commutes with Get and Put, and leaves
  "has to wait" unchanged. -/

theorem waiting_ignores_values (f : Nat → Nat) (s : BB.Buffer.St) (c : Nat) :
    BB.Buffer.getTry (s.mapV f) c = .pending ↔ BB.Buffer.getTry s c = .pending := by
  rw [BB.Buffer.getTry_mapV]
  cases BB.Buffer.getTry s c <;> simp [BB.Buffer.GetR.mapV]

theorem get_commutes_with_renaming (f : Nat → Nat) (s : BB.Buffer.St) (c : Nat) :
    BB.Buffer.get (s.mapV f) c = ((BB.Buffer.get s c).1.mapV f, (BB.Buffer.get s c).2.mapV f) :=
  BB.Buffer.get_mapV f s c

theorem put_commutes_with_renaming (f : Nat → Nat) (s : BB.Buffer.St) (vs : List Nat) :
    BB.Buffer.put (s.mapV f) (vs.map f) = ((BB.Buffer.put s vs).1.mapV f, (BB.Buffer.put s vs).2) :=
  BB.Buffer.put_mapV f s vs

/-- a Get that has to wait (in a state satisfying the buffer invariant, i.e. any reachable one: `BB.Buffer.inv_*`) is served by
    the next Put, and returns exactly the value put — for ANY value `v` -/
theorem put_of_any_value_ends_the_wait (s : BB.Buffer.St) (c : Nat) (k : BB.Buffer.Cons) (v : Nat)
    (hinv : BB.Buffer.Inv s) (hk : s.cons[c]? = some k) (hw : BB.Buffer.getTry s c = .pending) :
    (BB.Buffer.get (BB.Buffer.put s [v]).1 c).2 = .val v := by
  -- from `pending`: not cancelled, open, registered, not past, and the position is exactly past the end or beyond
  unfold BB.Buffer.getTry at hw
  rw [hk] at hw
  simp only at hw
  by_cases h1 : k.cancelled = true
  · simp [h1] at hw
  by_cases h2 : s.closed = true
  · simp [h1, h2] at hw
  by_cases h3 : (!k.registered) = true
  · simp [h1, h2, h3] at hw
  by_cases h4 : k.committed + k.delta < s.base
  · simp [h1, h2, h3, h4] at hw
  simp only [h1, h2, h3, h4, if_false, Bool.false_eq_true] at hw
  have hpos := (hinv.cons_ok k (List.mem_of_getElem? hk)).pos_le
  have hlen : s.buf.length = s.log.length - s.base := by rw [hinv.buf_eq]; simp
  have hnone : s.buf[k.committed + k.delta - s.base]? = none := by
    cases hb : s.buf[k.committed + k.delta - s.base]? with
    | none => rfl
    | some x => rw [hb] at hw; simp at hw
  have hge := List.getElem?_eq_none_iff.mp hnone
  have hidx : k.committed + k.delta - s.base = s.buf.length := by omega
  simp [BB.Buffer.put, h2, BB.Buffer.get, BB.Buffer.getTry, hk, h1, h3, h4, hidx]

example : (BB.Buffer.get (BB.Buffer.put (BB.Buffer.newConsumer {}).1 [0]).1 0).2 = .val 0 := by decide

end BB.Props.C05
