/-
  C02 — Buffer consumer: Commit/Rollback give transactional at-least-once consumption; Range.
  Property theorems only.  `ops` ranges over arbitrary continuations by any threads (Puts, other
  consumers' operations, arbitrary cleaner results), so the statements hold for every interleaving.
-/
import BB.Proofs.Txn

namespace BB.Props.C02
open BB.Buffer

/-- A successful Rollback resets exactly the uncommitted reads: the position returns to the
    committed offset; the committed offset itself is unchanged. -/
theorem rollback_resets (s : St) (c : Nat) (k : Cons) (hk : s.cons[c]? = some k) (hd : k.delta ≠ 0) :
    (rollback s c).2 = none ∧ view (rollback s c).1 c = some (k.committed, 0) := by
  have h : rollback s c = (setCons s c { k with delta := 0 }, none) := by
    unfold rollback; simp [hk, hd]
  rw [h]
  exact ⟨rfl, view_setCons_same _ hk⟩

/-- After a Rollback, and until the consumer's next Commit/Rollback, the Gets of that consumer read
    exactly the positions `committed, committed+1, …` in that order — the very positions read since
    the last Commit (see `reads_since_commit`), hence the very same values (the put order is
    immutable: `C01.reads_are_put_order`, `C01.log_only_grows`) and all of them before any newer one. -/
theorem rollback_replays (s : St) (c : Nat) (k : Cons) (hk : s.cons[c]? = some k) (hd : k.delta ≠ 0)
    (ops : List Op) (hno : ∀ op ∈ ops, op ≠ Op.commit c ∧ op ≠ Op.rollback c) :
    ∃ n, readsOf (run (rollback s c).1 ops) c = readsOf s c ++ List.range' k.committed n := by
  obtain ⟨n, hr, _⟩ := reads_consecutive c ops hno (rollback s c).1 k.committed 0 (rollback_resets s c k hk hd).2
  refine ⟨n, ?_⟩
  have : readsOf (rollback s c).1 c = readsOf s c := by
    have h : rollback s c = (setCons s c { k with delta := 0 }, none) := by
      unfold rollback; simp [hk, hd]
    rw [h]; rfl
  rw [hr, this]; simp

/-- Since the last successful Commit (or creation) the consumer read positions
    `committed, …, committed+delta-1`, consecutively. -/
theorem reads_since_commit (s : St) (c : Nat) (m : Nat) (hv : view s c = some (m, 0))
    (ops : List Op) (hno : ∀ op ∈ ops, op ≠ Op.commit c ∧ op ≠ Op.rollback c) :
    ∃ n, readsOf (run s ops) c = readsOf s c ++ List.range' m n ∧ view (run s ops) c = some (m, n) := by
  obtain ⟨n, hr, hv'⟩ := reads_consecutive c ops hno s m 0 hv
  exact ⟨n, by simpa using hr, by simpa using hv'⟩

/-- A successful Commit makes the reads permanent: the committed offset becomes the read position … -/
theorem commit_advances (s : St) (c : Nat) (k : Cons) (hk : s.cons[c]? = some k) (hd : k.delta ≠ 0)
    (hr : k.registered = true) :
    (commit s c).2 = none ∧ view (commit s c).1 c = some (k.committed + k.delta, 0) := by
  have h : commit s c = (setCons s c { k with committed := k.committed + k.delta, delta := 0 }, none) := by
    unfold commit; simp [hk, hd, hr]
  rw [h]
  exact ⟨rfl, view_setCons_same _ hk⟩

/-- … and it never goes back: whatever happens later, the consumer's committed offset stays at or
    beyond it, and every later read is at a position at or beyond it — committed values are never
    returned to that consumer again. -/
theorem commit_permanent (s : St) (c : Nat) (m d : Nat) (hv : view s c = some (m, d)) (ops : List Op) :
    ∃ m' d', view (run s ops) c = some (m', d') ∧ m ≤ m' :=
  committed_mono c ops s m d hv

theorem read_at_or_after_committed (s : St) (c : Nat) (m d : Nat) (hv : view s c = some (m, d)) :
    readsOf (step s (.get c)) c = readsOf s c ∨ readsOf (step s (.get c)) c = readsOf s c ++ [m + d] := by
  rcases step_get hv with ⟨_, h⟩ | ⟨_, h⟩
  · exact Or.inl h
  · exact Or.inr h

/-- Commit or Rollback with nothing pending returns an error and changes nothing. -/
theorem empty_commit_rollback (s : St) (c : Nat) (k : Cons) (hk : s.cons[c]? = some k) (hd : k.delta = 0) :
    commit s c = (s, some .nothingToCommit) ∧ rollback s c = (s, some .nothingToRollback) := by
  unfold commit rollback
  simp [hk, hd]

/-! ### Range -/

/-- `Range` never leaves uncommitted reads behind when it ends because the callback panicked or
    Get/Commit failed (or Get would block and the context was cancelled): the in-flight value was
    rolled back. -/
theorem range_failure_rolls_back (b : Bool) (c : Nat) (cbs : List Cb) :
    ∀ (s : St) (vis : Visits) (s' : St) (vis' : Visits) (e : RangeEnd),
    range b c cbs s vis = (s', vis', e) →
    (e = .panicked ∨ (∃ x, e = .getErr x) ∨ e = .blocked ∨ (∃ x, e = .commitErr x)) →
    ∀ k', s'.cons[c]? = some k' → k'.delta = 0 := by
  have roll : ∀ (s : St) (k' : Cons), (rollback s c).1.cons[c]? = some k' → k'.delta = 0 := by
    intro s k' hk'
    unfold rollback at hk'
    cases hk : s.cons[c]? with
    | none => simp [hk] at hk'
    | some k =>
      simp only [hk] at hk'
      by_cases hd : k.delta = 0
      · simp only [hd, if_true] at hk'
        rw [hk] at hk'; cases hk'; exact hd
      · have hl : c < s.cons.length := (List.getElem?_eq_some_iff.mp hk).1
        simp only [hd, if_false, setCons, List.getElem?_set_self hl] at hk'
        cases hk'; rfl
  induction cbs with
  | nil =>
    intro s vis s' vis' e h he
    simp only [range, Prod.mk.injEq] at h
    obtain ⟨_, _, rfl⟩ := h
    simp at he
  | cons cb rest ih =>
    intro s vis s' vis' e h he k' hk'
    cases hg : BB.Buffer.get s c with
    | mk s1 r =>
      cases r with
      | err x => simp only [range, hg, Prod.mk.injEq] at h; obtain ⟨rfl, _, _⟩ := h; exact roll _ _ hk'
      | pending => simp only [range, hg, Prod.mk.injEq] at h; obtain ⟨rfl, _, _⟩ := h; exact roll _ _ hk'
      | val v =>
        cases cb with
        | panic => simp only [range, hg, Prod.mk.injEq] at h; obtain ⟨rfl, _, _⟩ := h; exact roll _ _ hk'
        | stop =>
          cases hc : commit s1 c with
          | mk s2 oe =>
            cases oe with
            | some x => simp only [range, hg, hc, Prod.mk.injEq] at h; obtain ⟨rfl, _, _⟩ := h; exact roll _ _ hk'
            | none =>
              simp only [range, hg, hc, if_true, Prod.mk.injEq] at h
              obtain ⟨_, _, rfl⟩ := h
              simp at he
        | continue_ =>
          cases hc : commit s1 c with
          | mk s2 oe =>
            cases oe with
            | some x => simp only [range, hg, hc, Prod.mk.injEq] at h; obtain ⟨rfl, _, _⟩ := h; exact roll _ _ hk'
            | none =>
              simp only [range, hg, hc] at h
              repeat' split at h
              all_goals first
                | exact ih _ _ _ _ _ h he k' hk'
                | (simp only [Prod.mk.injEq] at h; obtain ⟨_, _, rfl⟩ := h; simp at he)
        | take =>
          cases hc : commit (BB.Buffer.get s1 c).1 c with
          | mk s2 oe =>
            cases oe with
            | some x => simp only [range, hg, hc, Prod.mk.injEq] at h; obtain ⟨rfl, _, _⟩ := h; exact roll _ _ hk'
            | none =>
              simp only [range, hg, hc] at h
              repeat' split at h
              all_goals first
                | exact ih _ _ _ _ _ h he k' hk'
                | (simp only [Prod.mk.injEq] at h; obtain ⟨_, _, rfl⟩ := h; simp at he)
        | put w =>
          cases hc : commit (put s1 [w]).1 c with
          | mk s2 oe =>
            cases oe with
            | some x => simp only [range, hg, hc, Prod.mk.injEq] at h; obtain ⟨rfl, _, _⟩ := h; exact roll _ _ hk'
            | none =>
              simp only [range, hg, hc] at h
              repeat' split at h
              all_goals first
                | exact ih _ _ _ _ _ h he k' hk'
                | (simp only [Prod.mk.injEq] at h; obtain ⟨_, _, rfl⟩ := h; simp at he)

/-- `Range` that starts with nothing pending and ends by a panic of the callback: the value that
    was in flight is the first value the next read of that consumer returns. -/
theorem range_panic_value_replayed (c : Nat) (s : St) (k : Cons) (hk : s.cons[c]? = some k)
    (hd : k.delta = 0) (v : Nat) (hv : getTry s c = .val v) (b : Bool) (rest : List Cb) :
    ∃ s', range b c (.panic :: rest) s [] = (s', [v], .panicked) ∧ getTry s' c = .val v := by
  have hl : c < s.cons.length := (List.getElem?_eq_some_iff.mp hk).1
  have hget : BB.Buffer.get s c = ({ s with cons := s.cons.set c { k with delta := k.delta + 1 }, reads := s.reads ++ [(c, k.committed + k.delta, v)] }, .val v) := by
    unfold BB.Buffer.get; rw [hv, hk]
  have hr : range b c (.panic :: rest) s [] = ((rollback (BB.Buffer.get s c).1 c).1, [v], .panicked) := by
    simp only [range, hget, List.nil_append]
  refine ⟨_, hr, ?_⟩
  · rw [hget]
    unfold rollback
    simp only [List.getElem?_set_self hl, hd]
    simp only [Nat.zero_add, Nat.add_one_ne_zero, if_false, setCons, List.set_set]
    unfold getTry at hv ⊢
    simp only [hk, List.getElem?_set_self hl] at hv ⊢
    simpa [hd] using hv

/-- `Buffer.Range` stops without blocking when the consumer has nothing left (the `Diff` guard). -/
theorem bufferRange_stops_at_end (c : Nat) (cbs : List Cb) (s : St) (k : Cons) (hk : s.cons[c]? = some k)
    (hr : k.registered = true) (hend : k.committed + k.delta ≥ s.base + s.buf.length) :
    bufferRange c cbs s = (s, [], .diffStop) := by
  unfold bufferRange diff
  simp only [hk, hr, if_true]
  have : ((s.buf.length : Int) - ((k.committed : Int) + (k.delta : Int) - (s.base : Int))) ≤ 0 := by omega
  simp [this]

/-! non-vacuity -/
def exampleTrace : List Op :=
  [.newConsumer, .put [5, 6, 7, 8], .get 0, .commit 0, .get 0, .get 0, .cleanDefault, .rollback 0, .put [9],
   .get 0, .get 0, .get 0]

example : readsOf (run init exampleTrace) 0 = [0, 1, 2, 1, 2, 3] ∧
    (run init exampleTrace).reads.map (·.2.2) = [5, 6, 7, 6, 7, 8] ∧ (run init exampleTrace).base = 1 := by decide

example : (range false 0 [.continue_, .panic] (run init [.newConsumer, .put [5, 6, 7]]) []).2 = ([5, 6], .panicked) ∧
    getTry (range false 0 [.continue_, .panic] (run init [.newConsumer, .put [5, 6, 7]]) []).1 0 = .val 6 := by decide

end BB.Props.C02
