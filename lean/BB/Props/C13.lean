/-
  C13 — Channel consumer is lossless, ordered and linearizable over its source channel.
  Theorems for every sequence of send / close-source / Get / Commit / Rollback / Close steps.
  (Linearizability of concurrent calls: every method body is one critical section of the single
  mutex, which is what the one-step-per-call model encodes; it is checked against the code by the
  concurrent correspondence run, not proved.)
-/
import BB.Model.Channel

namespace BB.Props.C13
open BB.Channel

structure Inv (s : St) : Prop where
  roll_le : s.rollback ≤ s.buffer.length
  split   : s.committed ++ s.buffer = s.taken
  source  : s.taken ++ s.src = s.sent

theorem inv_init : Inv init := ⟨Nat.le_refl _, rfl, rfl⟩

theorem inv_step {s : St} (h : Inv s) (op : Op) : Inv (step s op) := by
  cases op with
  | send v =>
    simp only [step, send]; split
    · exact h
    · exact ⟨h.roll_le, h.split, by simp [← h.source]⟩
  | closeSrc => exact ⟨h.roll_le, h.split, h.source⟩
  | get =>
    simp only [step, getOp]
    split
    · exact h
    · split
      · split
        · exact ⟨by have := h.roll_le; simp; omega, h.split, h.source⟩
        · exact h
      · split
        · rename_i v rest hs
          refine ⟨by have := h.roll_le; simp; omega, by simp [← h.split], ?_⟩
          have := h.source; rw [hs] at this; simp [← this]
        · exact h
  | commit =>
    simp only [step, commit]
    split
    · exact h
    · split
      · exact h
      · refine ⟨?_, ?_, h.source⟩
        · have := h.roll_le; simp [pending]; omega
        · simp only [List.append_assoc, List.take_append_drop]; exact h.split
  | rollback =>
    simp only [step, rollbackOp]
    split
    · exact h
    · exact ⟨by have := h.roll_le; simp [pending]; omega, h.split, h.source⟩
  | close =>
    simp only [step, close]; split
    · exact h
    · exact ⟨h.roll_le, h.split, h.source⟩

/-- At every point: the committed values followed by `Buffer()` are exactly what has been taken from
    the source, and what was taken followed by what is still queued is exactly what was sent —
    nothing lost, nothing duplicated, source order preserved. -/
theorem lossless_ordered (ops : List Op) :
    (run init ops).committed ++ (run init ops).buffer = (run init ops).taken ∧
    (run init ops).taken ++ (run init ops).src = (run init ops).sent ∧
    (run init ops).rollback ≤ (run init ops).buffer.length := by
  have h : Inv (run init ops) := by
    suffices ∀ s, Inv s → Inv (run s ops) from this _ inv_init
    induction ops with
    | nil => intro s h; exact h
    | cons op ops ih => intro s h; exact ih _ (inv_step h op)
  exact ⟨h.split, h.source, h.roll_le⟩

/-- A Get that takes a fresh value takes the head of the source queue (source order). -/
theorem get_fresh_is_head (s : St) (hc : s.closed = false) (hr : s.rollback = 0) (v : Nat) (rest : List Nat)
    (hs : s.src = v :: rest) : (getOp s).2 = .val v ∧ (getOp s).1.src = rest ∧ (getOp s).1.buffer = s.buffer ++ [v] := by
  simp [getOp, hc, hr, hs]

/-- After a Rollback the following Gets replay the delivered-but-uncommitted values in their original
    order: with `rollback = r > 0` the next Get returns `buffer[len - r]` and leaves `r - 1`. -/
theorem get_replays_in_order (s : St) (hc : s.closed = false) (hr : 0 < s.rollback) (hle : s.rollback ≤ s.buffer.length) :
    ∃ v, s.buffer[s.buffer.length - s.rollback]? = some v ∧ getOp s = ({ s with rollback := s.rollback - 1 }, .val v) := by
  have hlt : s.buffer.length - s.rollback < s.buffer.length := by omega
  refine ⟨s.buffer[s.buffer.length - s.rollback], List.getElem?_eq_getElem hlt, ?_⟩
  simp only [getOp, hc, hr, if_true, List.getElem?_eq_getElem hlt]
  simp

/-- Rollback marks every delivered entry for replay (`rollback = len(buffer)`), touching nothing else. -/
theorem rollback_marks_all (s : St) (hle : s.rollback ≤ s.buffer.length) (hp : pending s ≠ 0) :
    (rollbackOp s).2 = none ∧ (rollbackOp s).1.rollback = s.buffer.length ∧ (rollbackOp s).1.buffer = s.buffer := by
  have h : rollbackOp s = ({ s with rollback := s.rollback + pending s }, none) := by
    simp [rollbackOp, hp]
  rw [h]
  refine ⟨rfl, ?_, rfl⟩
  simp only [pending]; omega

/-- Commit drops exactly the delivered entries (the first `len - rollback`), keeps the ones still to
    be replayed, and appends the dropped ones to the committed stream. -/
theorem commit_drops_delivered (s : St) (hc : s.closed = false) (hp : pending s ≠ 0) :
    (commit s).2 = none ∧ (commit s).1.buffer = s.buffer.drop (s.buffer.length - s.rollback) ∧
    (commit s).1.committed = s.committed ++ s.buffer.take (s.buffer.length - s.rollback) ∧
    (commit s).1.rollback = s.rollback := by
  have hp' : ¬ (s.buffer.length - s.rollback = 0) := hp
  simp [commit, hc, pending, hp']

/-- A closed (and drained) source never produces a value, and with nothing to replay Get just waits. -/
theorem closed_source_no_value (s : St) (hs : s.src = []) (hr : s.rollback = 0) :
    (getOp s).2 = .blocked ∨ (getOp s).2 = .err .canceled := by
  by_cases hc : s.closed = true
  · right; simp [getOp, hc]
  · left; simp [getOp, hc, hr, hs]

/-- Once the Channel is closed (Done), nothing more is taken from the source, by any operation. -/
theorem nothing_taken_after_close (s : St) (hc : s.closed = true) (op : Op) (hop : ∀ v, op ≠ .send v) (hcs : op ≠ .closeSrc) :
    (step s op).src = s.src ∧ (step s op).taken = s.taken ∧ (step s op).closed = true := by
  cases op with
  | send v => exact absurd rfl (hop v)
  | closeSrc => exact absurd rfl hcs
  | get => simp [step, getOp, hc]
  | commit => simp [step, commit, hc]
  | rollback => simp only [step, rollbackOp]; split <;> simp [hc]
  | close => simp [step, close, hc]

/-- Commit and Get fail after Close; a second Close reports an error. -/
theorem after_close_errors (s : St) (hc : s.closed = true) :
    (getOp s).2 = .err .canceled ∧ (commit s).2 = some .canceled ∧ (close s).2 = some .once := by
  simp [getOp, commit, close, hc]

/-- LINEARIZABILITY of a Get that has to wait.  The real Get is a loop of polls, each one critical section (`getOp`),
    with arbitrary operations of other goroutines between the polls.  A poll that finds nothing changes nothing … -/
theorem blocked_poll_is_noop (s : St) (h : (getOp s).2 = .blocked) : (getOp s).1 = s := by
  unfold getOp at *
  split
  · rfl
  · split
    · split
      · rename_i hh; simp [*] at h
      · rfl
    · split
      · rename_i hh; simp [*] at h
      · rfl

/-- A GET THAT FAILS TAKES NOTHING: whatever the error (the Channel closed / its context cancelled — the caller's own context is
    checked before the critical section, where nothing has been touched yet), the source, the buffer and the replay position
    are what they were.  (The harness's `getflip` cases place a cancellation right after that up-front check.) -/
theorem failed_get_takes_nothing (s : St) (e : Err) (h : (getOp s).2 = .err e) : (getOp s).1 = s := by
  unfold getOp at *
  split
  · rfl
  · split
    · split
      · rename_i hh; simp [*] at h
      · rfl
    · split
      · rename_i hh; simp [*] at h
      · rfl

/-- … so a Get consisting of any number of unsuccessful polls interleaved with other goroutines' operations, followed by
    one successful poll, has exactly the effect and the result of that ONE poll: the whole call takes effect atomically
    at the instant of its last poll (every attempt re-reads `rollback`, the source and the close flag under the mutex). -/
def pollsThenOps : St → List (List Op) → St
  | s, [] => s
  | s, ops :: rest => pollsThenOps (run (getOp s).1 ops) rest

theorem waiting_get_is_one_atomic_poll (s : St) (between : List (List Op))
    (hblocked : ∀ (pre : List (List Op)) (post : List (List Op)), between = pre ++ post → post ≠ [] →
      (getOp (pollsThenOps s pre)).2 = .blocked) :
    pollsThenOps s between = between.foldl (fun s ops => run s ops) s := by
  induction between generalizing s with
  | nil => rfl
  | cons ops rest ih =>
    have h0 : (getOp s).2 = .blocked := hblocked [] (ops :: rest) rfl (by simp)
    simp only [pollsThenOps, List.foldl_cons, blocked_poll_is_noop s h0]
    apply ih
    intro pre post e hp
    have := hblocked (ops :: pre) post (by rw [e]; rfl) hp
    simpa [pollsThenOps, blocked_poll_is_noop s h0] using this

/-- a waiting Get is woken by a Rollback of another goroutine: the very next poll replays the oldest uncommitted value -/
theorem waiting_get_sees_rollback (s : St) (hc : s.closed = false) (hle : s.rollback ≤ s.buffer.length) (hp : pending s ≠ 0)
    (hb : (getOp s).2 = .blocked) : ∃ v, (getOp (rollbackOp s).1).2 = .val v ∧ s.buffer[0]? = some v := by
  have hr0 : s.rollback = 0 := by
    unfold getOp at hb
    by_cases h : s.rollback > 0
    · simp only [hc, Bool.false_eq_true, ↓reduceIte, h] at hb
      have : s.buffer.length - s.rollback < s.buffer.length := by unfold pending at hp; omega
      rw [List.getElem?_eq_getElem this] at hb; simp at hb
    · omega
  have hp' : ¬ (s.buffer.length - s.rollback = 0) := hp
  have hlen : 0 < s.buffer.length := by unfold pending at hp; omega
  refine ⟨s.buffer[0], ?_, List.getElem?_eq_getElem hlen⟩
  have hne : s.buffer ≠ [] := fun e => by rw [e] at hlen; simp at hlen
  have e : (rollbackOp s).1 = { s with rollback := s.buffer.length } := by
    simp [rollbackOp, pending, hr0, hne]
  rw [e]
  simp [getOp, hc, hlen]

/-! non-vacuity: rollback → partial re-read → rollback → commit, source closed afterwards -/
def exampleTrace : List Op :=
  [.send 1, .send 2, .send 3, .get, .get, .rollback, .get, .rollback, .get, .commit, .closeSrc, .get, .get, .get]

example : (run init exampleTrace).committed = [1] ∧ (run init exampleTrace).buffer = [2, 3] ∧
    (run init exampleTrace).rollback = 0 ∧ (run init exampleTrace).src = [] := by decide

/-- non-vacuity of the waiting-Get theorems: two values read, a third Get blocks, another goroutine rolls back -/
example : (getOp (run init [.send 1, .send 2, .get, .get])).2 = .blocked ∧
    (getOp (rollbackOp (run init [.send 1, .send 2, .get, .get])).1).2 = .val 1 := by decide

end BB.Props.C13
