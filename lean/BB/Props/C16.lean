/-
  C16 — Context combinators cancel exactly when specified and run hooks exactly once.
  Theorems over every interleaving of cancellations with the asynchronous AfterFunc callbacks
  (every order, including "simultaneous" = adjacent cancellations with all callbacks still pending),
  for every number of inputs.
-/
import BB.Model.Ctx
import BB.Proofs.CtxBuild

namespace BB.Props.C16
open BB.Ctx

/-! ## ChainAfterFunc -/

structure ChainInv (s : Chain) : Prop where
  armed1   : s.r1 = .armed → s.calls = 0 ∧ s.pendF = 0 ∧ s.otherC = false
  fired1   : s.r1 = .fired → s.calls + s.pendF = 1 ∧ s.otherC = true
  stopped1 : s.r1 = .stopped → s.calls = 1 ∧ s.pendF = 0 ∧ s.r2 = .fired
  armed2   : s.r2 = .armed → s.pendHook = 0 ∧ s.ctxC = false
  fired2   : s.r2 = .fired → s.ctxC = true ∧ s.pendHook ≤ 1 ∧ (s.pendHook = 0 → s.r1 ≠ .armed)
  nostop2  : s.r2 ≠ .stopped

theorem chainInv_init (a b : Bool) : ChainInv (Chain.init a b) := by
  cases a <;> cases b <;> constructor <;> simp [Chain.init]

theorem chainInv_step {s : Chain} (h : ChainInv s) (a : ChainAct) : ChainInv (s.step a) := by
  obtain ⟨h1, h2, h3, h4, h5, h6⟩ := h
  cases a with
  | cancelOther =>
    simp only [Chain.step]
    split
    · exact ⟨h1, h2, h3, h4, h5, h6⟩
    · split
      · rename_i ho hr
        obtain ⟨a1, a2, a3⟩ := h1 hr
        constructor <;> simp_all
      · rename_i ho hr
        constructor <;> simp_all
  | cancelCtx =>
    simp only [Chain.step]
    split
    · exact ⟨h1, h2, h3, h4, h5, h6⟩
    · split
      · rename_i hc hr
        obtain ⟨a1, a2⟩ := h4 hr
        constructor <;> simp_all
      · rename_i hc hr
        have : s.r2 = .fired := by
          cases hr2 : s.r2 <;> simp_all
        have := (h5 this).1
        simp_all
  | runF =>
    simp only [Chain.step]
    split
    · rename_i hp
      constructor
      · intro hr; have := (h1 hr).2.1; omega
      · intro hr; have := h2 hr; simp only at *; exact ⟨by omega, this.2⟩
      · intro hr; have := (h3 hr).2.1; omega
      · exact h4
      · exact h5
      · exact h6
    · exact ⟨h1, h2, h3, h4, h5, h6⟩
  | runHook =>
    simp only [Chain.step]
    split
    · rename_i hp
      have hr2 : s.r2 = .fired := by
        cases hr : s.r2
        · have := (h4 hr).1; omega
        · rfl
        · exact absurd hr h6
      split
      · rename_i hr1
        obtain ⟨a1, a2, a3⟩ := h1 hr1
        constructor <;> simp_all
      · rename_i hr1
        constructor
        · intro hr; exact absurd hr hr1
        · exact h2
        · exact h3
        · intro hr; rw [hr2] at hr; cases hr
        · intro _; have := h5 hr2
          exact ⟨this.1, by simp only; omega, fun _ => hr1⟩
        · exact h6
    · exact ⟨h1, h2, h3, h4, h5, h6⟩

theorem chainInv_run (a b : Bool) (as : List ChainAct) : ChainInv ((Chain.init a b).run as) := by
  suffices ∀ s, ChainInv s → ChainInv (s.run as) from this _ (chainInv_init a b)
  induction as with
  | nil => intro s h; exact h
  | cons x xs ih => intro s h; exact ih _ (chainInv_step h x)

theorem chain_flags_monotone (s : Chain) (a : ChainAct) :
    (s.otherC = true → (s.step a).otherC = true) ∧ (s.ctxC = true → (s.step a).ctxC = true) := by
  cases a <;> simp only [Chain.step] <;> (repeat' split) <;> simp_all

/-- f is never called twice, in any interleaving (both contexts cancelled "simultaneously" included) -/
theorem chain_at_most_once (a b : Bool) (as : List ChainAct) : ((Chain.init a b).run as).calls ≤ 1 := by
  have h := chainInv_run a b as
  cases hr : ((Chain.init a b).run as).r1
  · have := (h.armed1 hr).1; omega
  · have := (h.fired1 hr).1; omega
  · have := (h.stopped1 hr).1; omega

/-- once all scheduled callbacks have run: f was called exactly once if either context was ever
    cancelled, and never if neither was -/
theorem chain_exactly_once (a b : Bool) (as : List ChainAct)
    (hq : ((Chain.init a b).run as).quiescent = true) :
    ((Chain.init a b).run as).calls =
      if ((Chain.init a b).run as).otherC || ((Chain.init a b).run as).ctxC then 1 else 0 := by
  have h := chainInv_run a b as
  generalize (Chain.init a b).run as = s at *
  simp only [Chain.quiescent, Bool.and_eq_true, beq_iff_eq] at hq
  obtain ⟨hq1, hq2⟩ := hq
  cases hr : s.r1
  · -- armed: other not cancelled; ctx not cancelled either (else the hook would have disarmed r1)
    obtain ⟨a1, a2, a3⟩ := h.armed1 hr
    have : s.ctxC = false := by
      cases hr2 : s.r2
      · exact (h.armed2 hr2).2
      · exact absurd hr ((h.fired2 hr2).2.2 hq2)
      · exact absurd hr2 h.nostop2
    simp [a1, a3, this]
  · obtain ⟨a1, a2⟩ := h.fired1 hr
    simp [a2]; omega
  · obtain ⟨a1, a2, a3⟩ := h.stopped1 hr
    have := (h.fired2 a3).1
    simp [this, a1]

/-! ## CombineContext -/

structure CombineInv (s : Combine) : Prop where
  pairs    : ∀ p ∈ s.others, (p.2 = Reg.armed → p.1 = false) ∧ (p.2 = Reg.fired → p.1 = true)
  stoppedR : (∃ p ∈ s.others, p.2 = Reg.stopped) → s.resultC = true
  sound    : s.resultC = true → s.primaryC = true ∨ ∃ p ∈ s.others, p.1 = true
  prim     : s.primaryC = true → s.resultC = true
  pending  : (∃ p ∈ s.others, p.2 = Reg.fired) → s.resultC = true ∨ s.pendCancel > 0
  pcSound  : s.pendCancel > 0 → ∃ p ∈ s.others, p.1 = true
  stopA    : s.stopReg = Reg.armed → s.resultC = false ∧ s.pendStop = 0
  stopF    : s.stopReg = Reg.fired → s.resultC = true ∧ (s.pendStop = 0 → ∀ p ∈ s.others, p.2 ≠ Reg.armed)
  stopN    : s.stopReg ≠ Reg.stopped

theorem combineInv_init (n : Nat) : CombineInv (Combine.init n) := by
  constructor <;> simp [Combine.init, List.mem_replicate]

/-- cancelling the result, from a state that satisfies everything except (possibly) the two clauses
    that only say "the result must be cancelled by now" -/
theorem combineInv_cancelResult (s : Combine)
    (pairs : ∀ p ∈ s.others, (p.2 = Reg.armed → p.1 = false) ∧ (p.2 = Reg.fired → p.1 = true))
    (pcSound : s.pendCancel > 0 → ∃ p ∈ s.others, p.1 = true)
    (stopA : s.stopReg = Reg.armed → s.resultC = false ∧ s.pendStop = 0)
    (stopF : s.stopReg = Reg.fired → s.resultC = true ∧ (s.pendStop = 0 → ∀ p ∈ s.others, p.2 ≠ Reg.armed))
    (stopN : s.stopReg ≠ Reg.stopped)
    (sound : s.resultC = true → s.primaryC = true ∨ ∃ p ∈ s.others, p.1 = true)
    (hcause : s.primaryC = true ∨ ∃ p ∈ s.others, p.1 = true) : CombineInv s.cancelResult := by
  unfold Combine.cancelResult
  by_cases hr : s.resultC = true
  · simp only [hr, if_true]
    exact ⟨pairs, fun _ => hr, sound, fun _ => hr, fun _ => Or.inl hr, pcSound, stopA, stopF, stopN⟩
  · simp only [hr]
    have hA : s.stopReg = Reg.armed := by
      cases hx : s.stopReg
      · rfl
      · exact absurd (stopF hx).1 hr
      · exact absurd hx stopN
    simp only [hA, if_true]
    exact ⟨pairs, fun _ => rfl, fun _ => hcause, fun _ => rfl, fun _ => Or.inl rfl, pcSound,
      by simp, by simp, by simp⟩

theorem combineInv_step {s : Combine} (h : CombineInv s) (a : CombineAct) : CombineInv (s.step a) := by
  cases a with
  | cancelPrimary =>
    simp only [Combine.step]
    split
    · exact h
    · exact combineInv_cancelResult _ h.pairs h.pcSound h.stopA h.stopF h.stopN
        (fun hr => Or.inl rfl) (Or.inl rfl)
  | cancelOther i =>
    simp only [Combine.step]
    split
    · -- live other with an armed registration: it fires
      rename_i hi
      have hmem : ((false, Reg.armed) : Bool × Reg) ∈ s.others := List.mem_of_getElem? hi
      refine ⟨?_, ?_, ?_, h.prim, ?_, ?_, h.stopA, ?_, h.stopN⟩
      · intro p hp
        rcases List.mem_or_eq_of_mem_set hp with hp | rfl
        · exact h.pairs p hp
        · simp
      · rintro ⟨p, hp, hs⟩
        rcases List.mem_or_eq_of_mem_set hp with hp | rfl
        · exact h.stoppedR ⟨p, hp, hs⟩
        · cases hs
      · intro hr
        rcases h.sound hr with hh | ⟨p, hp, hpt⟩
        · exact Or.inl hh
        · exact Or.inr ⟨(true, Reg.fired), List.mem_set (List.getElem?_eq_some_iff.mp hi).1 _, rfl⟩
      · intro _; exact Or.inr (by simp)
      · intro _; exact ⟨(true, Reg.fired), List.mem_set (List.getElem?_eq_some_iff.mp hi).1 _, rfl⟩
      · intro hf
        refine ⟨(h.stopF hf).1, ?_⟩
        intro hps p hp
        -- an armed registration exists, so the stop callback cannot have run yet
        exact absurd rfl ((h.stopF hf).2 hps _ hmem)
    · -- live other whose registration is already fired or stopped (only stopped is reachable)
      rename_i r hne hi
      have hmem : ((false, r) : Bool × Reg) ∈ s.others := List.mem_of_getElem? hi
      have hr : r = Reg.stopped := by
        cases r
        · exact absurd rfl (hne)
        · have := (h.pairs _ hmem).2 rfl; simp at this
        · rfl
      subst hr
      have hres : s.resultC = true := h.stoppedR ⟨_, hmem, rfl⟩
      refine ⟨?_, fun _ => hres, ?_, h.prim, fun _ => Or.inl hres, ?_, h.stopA, ?_, h.stopN⟩
      · intro p hp
        rcases List.mem_or_eq_of_mem_set hp with hp | rfl
        · exact h.pairs p hp
        · simp
      · intro _; exact Or.inr ⟨(true, Reg.stopped), List.mem_set (List.getElem?_eq_some_iff.mp hi).1 _, rfl⟩
      · intro _; exact ⟨(true, Reg.stopped), List.mem_set (List.getElem?_eq_some_iff.mp hi).1 _, rfl⟩
      · intro hf
        refine ⟨(h.stopF hf).1, ?_⟩
        intro hps p hp
        rcases List.mem_or_eq_of_mem_set hp with hp | rfl
        · exact (h.stopF hf).2 hps p hp
        · simp
    · exact h
  | runCancel =>
    simp only [Combine.step]
    split
    · rename_i hp
      exact combineInv_cancelResult _ h.pairs (fun hh => h.pcSound hp) h.stopA h.stopF h.stopN h.sound
        (Or.inr (h.pcSound hp))
    · exact h
  | runStop =>
    simp only [Combine.step]
    split
    · rename_i hp
      have hF : s.stopReg = Reg.fired := by
        cases hx : s.stopReg
        · have := (h.stopA hx).2; omega
        · rfl
        · exact absurd hx h.stopN
      have hres := (h.stopF hF).1
      refine ⟨?_, fun _ => hres, ?_, h.prim, fun _ => Or.inl hres, ?_, ?_, ?_, h.stopN⟩
      · intro p hp
        obtain ⟨q, hq, rfl⟩ := List.mem_map.mp hp
        have := h.pairs q hq
        by_cases hqa : q.2 = Reg.armed <;> simp [hqa] <;> exact this.2
      · intro hr
        rcases h.sound hr with hh | ⟨q, hq, hqt⟩
        · exact Or.inl hh
        · exact Or.inr ⟨_, List.mem_map.mpr ⟨q, hq, rfl⟩, hqt⟩
      · intro hpc
        obtain ⟨q, hq, hqt⟩ := h.pcSound hpc
        exact ⟨_, List.mem_map.mpr ⟨q, hq, rfl⟩, hqt⟩
      · intro hA; rw [hF] at hA; cases hA
      · intro _
        refine ⟨hres, fun _ p hp => ?_⟩
        obtain ⟨q, hq, rfl⟩ := List.mem_map.mp hp
        by_cases hqa : q.2 = Reg.armed <;> simp [hqa]
    · exact h

theorem combineInv_run (n : Nat) (as : List CombineAct) : CombineInv ((Combine.init n).run as) := by
  suffices ∀ s, CombineInv s → CombineInv (s.run as) from this _ (combineInv_init n)
  induction as with
  | nil => intro s h; exact h
  | cons x xs ih => intro s h; exact ih _ (combineInv_step h x)

/-- The result is never cancelled without a cause, is cancelled at once when the primary is, and —
    once the scheduled AfterFunc callbacks have run — is cancelled exactly when the primary or any of
    the others is cancelled; then every hook on the others is deregistered (none is left armed). -/
theorem combine_iff (n : Nat) (as : List CombineAct) :
    let s := (Combine.init n).run as
    (s.resultC = true → s.primaryC = true ∨ ∃ p ∈ s.others, p.1 = true) ∧
    (s.primaryC = true → s.resultC = true) ∧
    (s.quiescent = true → ((s.primaryC = true ∨ ∃ p ∈ s.others, p.1 = true) → s.resultC = true)) ∧
    (s.quiescent = true → s.resultC = true → ∀ p ∈ s.others, p.2 ≠ Reg.armed) := by
  intro s
  have h : CombineInv s := combineInv_run n as
  clear_value s
  refine ⟨h.sound, h.prim, ?_, ?_⟩
  · intro hq hc
    simp only [Combine.quiescent, Bool.and_eq_true, beq_iff_eq] at hq
    obtain ⟨hq1, hq2⟩ := hq
    rcases hc with hp | ⟨p, hp, hpt⟩
    · exact h.prim hp
    · -- a cancelled other has a fired or stopped registration
      cases hr : p.2
      · have := (h.pairs p hp).1 hr; rw [hpt] at this; cases this
      · rcases h.pending ⟨p, hp, hr⟩ with hres | hpc
        · exact hres
        · omega
      · exact h.stoppedR ⟨p, hp, hr⟩
  · intro hq hres
    simp only [Combine.quiescent, Bool.and_eq_true, beq_iff_eq] at hq
    have hF : s.stopReg = Reg.fired := by
      cases hx : s.stopReg
      · have := (h.stopA hx).1; rw [hres] at this; cases this
      · rfl
      · exact absurd hx h.stopN
    exact (h.stopF hF).2 hq.2

/-! ## ConflatedContext -/

def callsSum (l : List Chain) : Nat := (l.map (·.calls)).sum

theorem callsSum_set {l : List Chain} {i : Nat} {c c' : Chain} (h : l[i]? = some c) :
    callsSum (l.set i c') + c.calls = callsSum l + c'.calls := by
  induction l generalizing i with
  | nil => simp at h
  | cons x xs ih =>
    cases i with
    | zero => simp at h; subst h; simp [callsSum]; omega
    | succ i =>
      simp at h
      have := ih h
      simp only [callsSum, List.set_cons_succ, List.map_cons, List.sum_cons] at this ⊢
      omega

theorem callsSum_le {l : List Chain} (h : ∀ c ∈ l, c.calls ≤ 1) : callsSum l ≤ l.length := by
  induction l with
  | nil => simp [callsSum]
  | cons x xs ih =>
    have := ih (fun c hc => h c (by simp [hc]))
    have := h x (by simp)
    simp only [callsSum, List.map_cons, List.sum_cons, List.length_cons] at *
    omega

theorem callsSum_map_cancelCtx (l : List Chain) : callsSum (l.map (·.step .cancelCtx)) = callsSum l := by
  induction l with
  | nil => rfl
  | cons x xs ih =>
    simp only [callsSum, List.map_cons, List.sum_cons] at ih ⊢
    rw [ih]
    congr 1
    simp only [Chain.step]; (repeat' split) <;> rfl

theorem chainInv_calls_le {c : Chain} (h : ChainInv c) : c.calls ≤ 1 := by
  cases hr : c.r1
  · have := (h.armed1 hr).1; omega
  · have := (h.fired1 hr).1; omega
  · have := (h.stopped1 hr).1; omega

structure ConflInv (s : Conflated) : Prop where
  chainsOk : ∀ c ∈ s.chains, ChainInv c
  ctxEq    : ∀ c ∈ s.chains, c.ctxC = s.resultC
  wgEq     : s.wg + callsSum s.chains = s.chains.length
  resSound : s.resultC = true → s.cancelFn = true ∨ s.waiterExited = true
  fnRes    : s.cancelFn = true → s.resultC = true
  waitRes  : s.waiterExited = true → s.resultC = true ∧ s.wg = 0 ∧
               (s.cancelFn = true ∨ ∀ c ∈ s.chains, c.otherC = true)

theorem conflInv_init (n : Nat) : ConflInv (Conflated.init n) := by
  constructor
  · intro c hc; simp [Conflated.init, List.mem_replicate] at hc; rw [hc.2]; exact chainInv_init _ _
  · intro c hc; simp [Conflated.init, List.mem_replicate] at hc; rw [hc.2]; rfl
  · simp only [Conflated.init, List.length_replicate]
    have : callsSum (List.replicate n (Chain.init false false)) = 0 := by
      induction n with
      | zero => rfl
      | succ n ih => simp only [callsSum, List.replicate_succ, List.map_cons, List.sum_cons] at ih ⊢; rw [ih]; rfl
    omega
  · simp [Conflated.init]
  · simp [Conflated.init]
  · simp [Conflated.init]

/-- cancelling the result: every chain sees its primary context cancelled -/
theorem conflInv_cancelResult {s : Conflated} (h : ConflInv s) (fn we : Bool)
    (_hfn : s.cancelFn = true → fn = true) (_hwe : s.waiterExited = true → we = true)
    (hcause : fn = true ∨ we = true)
    (hwait : we = true → s.wg = 0 ∧ (fn = true ∨ ∀ c ∈ s.chains, c.otherC = true)) :
    ConflInv (Conflated.cancelResult { s with cancelFn := fn, waiterExited := we }) := by
  by_cases hr : s.resultC = true
  · have e : Conflated.cancelResult { s with cancelFn := fn, waiterExited := we } =
        { s with cancelFn := fn, waiterExited := we } := by
      simp [Conflated.cancelResult, hr]
    rw [e]
    exact ⟨h.chainsOk, h.ctxEq, h.wgEq, fun _ => hcause, fun _ => hr, fun hw => ⟨hr, hwait hw⟩⟩
  · have e : Conflated.cancelResult { s with cancelFn := fn, waiterExited := we } =
        { s with cancelFn := fn, waiterExited := we, resultC := true,
                 chains := s.chains.map (·.step .cancelCtx) } := by
      simp [Conflated.cancelResult, hr]
    rw [e]
    refine ⟨?_, ?_, ?_, fun _ => hcause, fun _ => rfl, ?_⟩
    · intro c hc
      obtain ⟨c0, hc0, rfl⟩ := List.mem_map.mp hc
      exact chainInv_step (h.chainsOk c0 hc0) _
    · intro c hc
      obtain ⟨c0, hc0, rfl⟩ := List.mem_map.mp hc
      have h0 : c0.ctxC = false := by rw [h.ctxEq c0 hc0]; simpa using hr
      show (c0.step .cancelCtx).ctxC = true
      simp only [Chain.step, h0]
      by_cases hra : c0.r2 = Reg.armed <;> simp [hra]
    · show s.wg + callsSum (s.chains.map (·.step .cancelCtx)) = (s.chains.map (·.step .cancelCtx)).length
      simp only [List.length_map, callsSum_map_cancelCtx]; exact h.wgEq
    · intro hw
      refine ⟨rfl, (hwait hw).1, ?_⟩
      rcases (hwait hw).2 with hf | hall
      · exact Or.inl hf
      · right
        intro c hc
        obtain ⟨c0, hc0, rfl⟩ := List.mem_map.mp hc
        exact (chain_flags_monotone c0 .cancelCtx).1 (hall c0 hc0)

theorem conflInv_setChain {s : Conflated} (h : ConflInv s) (i : Nat) (c : Chain) (a : ChainAct)
    (hc : s.chains[i]? = some c) (hctx : (c.step a).ctxC = c.ctxC) (wg' : Nat)
    (hwg : wg' + (c.step a).calls = s.wg + c.calls) :
    ConflInv { s with chains := s.chains.set i (c.step a), wg := wg' } := by
  have hmem : c ∈ s.chains := List.mem_of_getElem? hc
  refine ⟨?_, ?_, ?_, h.resSound, h.fnRes, ?_⟩
  · intro x hx
    rcases List.mem_or_eq_of_mem_set hx with hx | rfl
    · exact h.chainsOk x hx
    · exact chainInv_step (h.chainsOk c hmem) a
  · intro x hx
    rcases List.mem_or_eq_of_mem_set hx with hx | rfl
    · exact h.ctxEq x hx
    · rw [hctx]; exact h.ctxEq c hmem
  · have h1 := callsSum_set (c' := c.step a) hc
    have h2 := h.wgEq
    simp only [List.length_set]
    omega
  · intro hw
    obtain ⟨w1, w2, w3⟩ := h.waitRes hw
    have hle : callsSum (s.chains.set i (c.step a)) ≤ (s.chains.set i (c.step a)).length := by
      apply callsSum_le
      intro x hx
      rcases List.mem_or_eq_of_mem_set hx with hx | rfl
      · exact chainInv_calls_le (h.chainsOk x hx)
      · exact chainInv_calls_le (chainInv_step (h.chainsOk c hmem) a)
    have h1 := callsSum_set (c' := c.step a) hc
    have h2 := h.wgEq
    simp only [List.length_set] at hle
    have hmono : c.calls ≤ (c.step a).calls := by
      cases a <;> simp only [Chain.step] <;> (repeat' split) <;> simp
    refine ⟨w1, ?_, ?_⟩
    · show wg' = 0
      omega
    rcases w3 with hf | hall
    · exact Or.inl hf
    · right
      intro x hx
      rcases List.mem_or_eq_of_mem_set hx with hx | rfl
      · exact hall x hx
      · exact (chain_flags_monotone c a).1 (hall c hmem)

theorem conflInv_step {s : Conflated} (h : ConflInv s) (a : ConflatedAct) : ConflInv (s.step a) := by
  cases a with
  | cancelInput i =>
    simp only [Conflated.step]
    split
    · rename_i c hc
      have := conflInv_setChain h i c .cancelOther hc
        (by simp only [Chain.step]; (repeat' split) <;> rfl) s.wg
        (by simp only [Chain.step]; (repeat' split) <;> rfl)
      simpa using this
    · exact h
  | cancelFn =>
    exact conflInv_cancelResult h true s.waiterExited (fun _ => rfl) (fun x => x) (Or.inl rfl)
      (fun hw => ⟨(h.waitRes hw).2.1, Or.inl rfl⟩)
  | runF i =>
    simp only [Conflated.step]
    split
    · rename_i c hc
      split
      · rename_i hp
        have hmem : c ∈ s.chains := List.mem_of_getElem? hc
        have hci := h.chainsOk c hmem
        have hcalls : c.calls = 0 := by
          cases hr : c.r1
          · have := (hci.armed1 hr).2.1; omega
          · have := (hci.fired1 hr).1; omega
          · have := (hci.stopped1 hr).2.1; omega
        have hwgpos : s.wg ≥ 1 := by
          have hle : callsSum (s.chains.set i (c.step .runF)) ≤ (s.chains.set i (c.step .runF)).length := by
            apply callsSum_le
            intro x hx
            rcases List.mem_or_eq_of_mem_set hx with hx | rfl
            · exact chainInv_calls_le (h.chainsOk x hx)
            · exact chainInv_calls_le (chainInv_step hci _)
          have h1 := callsSum_set (c' := c.step .runF) hc
          have h2 := h.wgEq
          have h3 : (c.step .runF).calls = c.calls + 1 := by simp [Chain.step, hp]
          simp only [List.length_set] at hle
          omega
        exact conflInv_setChain h i c .runF hc (by simp [Chain.step, hp]) (s.wg - 1)
          (by simp [Chain.step, hp]; omega)
      · exact h
    · exact h
  | runHook i =>
    simp only [Conflated.step]
    split
    · rename_i c hc
      split
      · rename_i hp
        have hmem : c ∈ s.chains := List.mem_of_getElem? hc
        have hci := h.chainsOk c hmem
        by_cases hr1 : c.r1 = Reg.armed
        · have hcalls : c.calls = 0 := (hci.armed1 hr1).1
          have h3 : (c.step .runHook).calls = c.calls + 1 := by simp [Chain.step, hp, hr1]
          have hwgpos : s.wg ≥ 1 := by
            have hle : callsSum (s.chains.set i (c.step .runHook)) ≤ (s.chains.set i (c.step .runHook)).length := by
              apply callsSum_le
              intro x hx
              rcases List.mem_or_eq_of_mem_set hx with hx | rfl
              · exact chainInv_calls_le (h.chainsOk x hx)
              · exact chainInv_calls_le (chainInv_step hci _)
            have h1 := callsSum_set (c' := c.step .runHook) hc
            have h2 := h.wgEq
            simp only [List.length_set] at hle
            omega
          simp only [hr1, if_true]
          exact conflInv_setChain h i c .runHook hc (by simp [Chain.step, hp, hr1]) (s.wg - 1) (by omega)
        · simp only [hr1, if_false]
          exact conflInv_setChain h i c .runHook hc (by simp [Chain.step, hp, hr1]) s.wg
            (by simp [Chain.step, hp, hr1])
      · exact h
    · exact h
  | waiter =>
    simp only [Conflated.step]
    split
    · rename_i hw
      simp only [Bool.and_eq_true, decide_eq_true_eq, Bool.not_eq_true'] at hw
      obtain ⟨hw0, hwe⟩ := hw
      apply conflInv_cancelResult h s.cancelFn true (fun x => x) (fun _ => rfl) (Or.inr rfl)
      intro _
      refine ⟨hw0, ?_⟩
      -- wg = 0: every chain's Done has been called, so each chain saw its input or the result cancelled
      by_cases hfn : s.cancelFn = true
      · exact Or.inl hfn
      · right
        have hres : s.resultC = false := by
          cases hx : s.resultC
          · rfl
          · rcases h.resSound hx with h1 | h1
            · exact absurd h1 hfn
            · rw [hwe] at h1; cases h1
        have hsum : callsSum s.chains = s.chains.length := by have := h.wgEq; omega
        -- each chain has calls = 1
        have hall : ∀ (l : List Chain), (∀ c ∈ l, c.calls ≤ 1) → callsSum l = l.length → ∀ c ∈ l, c.calls = 1 := by
          intro l
          induction l with
          | nil => intro _ _ c hc; simp at hc
          | cons x xs ih =>
            intro hle hs c hc
            have hx := hle x (by simp)
            have hxs := callsSum_le (l := xs) (fun c hc => hle c (by simp [hc]))
            simp only [callsSum, List.map_cons, List.sum_cons, List.length_cons] at hs hxs
            rcases List.mem_cons.mp hc with rfl | hc
            · omega
            · exact ih (fun c hc => hle c (by simp [hc])) (by simp only [callsSum]; omega) c hc
        intro c hc
        have h1 := hall s.chains (fun c hc => chainInv_calls_le (h.chainsOk c hc)) hsum c hc
        have hci := h.chainsOk c hc
        have hctx : c.ctxC = false := by rw [h.ctxEq c hc]; exact hres
        cases hr : c.r1
        · have := (hci.armed1 hr).1; omega
        · exact (hci.fired1 hr).2
        · have := (hci.fired2 (hci.stopped1 hr).2.2).1; rw [hctx] at this; cases this
    · exact h

theorem conflInv_run (n : Nat) (as : List ConflatedAct) : ConflInv ((Conflated.init n).run as) := by
  suffices ∀ s, ConflInv s → ConflInv (s.run as) from this _ (conflInv_init n)
  induction as with
  | nil => intro s h; exact h
  | cons x xs ih => intro s h; exact ih _ (conflInv_step h x)

/-- The conflated context stays live while at least one input is live and its cancel function was
    not called; it is cancelled at once by the cancel function; and once all scheduled callbacks and
    the waiter goroutine have run it is cancelled when all inputs are cancelled.  When it is
    cancelled and everything has run, the waiter goroutine has exited or will exit at its next step
    (wg = 0): nothing is left waiting. -/
theorem conflated_iff (n : Nat) (as : List ConflatedAct) :
    let s := (Conflated.init n).run as
    (s.resultC = true → s.cancelFn = true ∨ ∀ c ∈ s.chains, c.otherC = true) ∧
    (s.cancelFn = true → s.resultC = true) ∧
    (s.quiescent = true → (∀ c ∈ s.chains, c.otherC = true) → s.resultC = true) ∧
    (s.quiescent = true → s.resultC = true → s.wg = 0) := by
  intro s
  have h : ConflInv s := conflInv_run n as
  clear_value s
  have quiet_calls : s.quiescent = true → ∀ c ∈ s.chains, (c.otherC = true ∨ c.ctxC = true) → c.calls = 1 := by
    intro hq c hc hcc
    simp only [Conflated.quiescent, Bool.and_eq_true, List.all_eq_true] at hq
    have hcq := hq.1 c hc
    simp only [Chain.quiescent, Bool.and_eq_true, beq_iff_eq] at hcq
    have hci := h.chainsOk c hc
    cases hr : c.r1
    · exfalso
      obtain ⟨_, _, a3⟩ := hci.armed1 hr
      rcases hcc with hcc | hcc
      · rw [a3] at hcc; cases hcc
      · cases hr2 : c.r2
        · have := (hci.armed2 hr2).2; rw [hcc] at this; cases this
        · exact (hci.fired2 hr2).2.2 hcq.2 hr
        · exact hci.nostop2 hr2
    · have := (hci.fired1 hr).1; omega
    · exact (hci.stopped1 hr).1
  have all_one_sum : ∀ (l : List Chain), (∀ c ∈ l, c.calls = 1) → callsSum l = l.length := by
    intro l hl
    induction l with
    | nil => rfl
    | cons x xs ih =>
      have := ih (fun c hc => hl c (by simp [hc]))
      have := hl x (by simp)
      simp only [callsSum, List.map_cons, List.sum_cons, List.length_cons] at *
      omega
  refine ⟨?_, h.fnRes, ?_, ?_⟩
  · intro hr
    rcases h.resSound hr with hf | hw
    · exact Or.inl hf
    · exact (h.waitRes hw).2.2
  · intro hq hall
    have hsum := all_one_sum s.chains (fun c hc => quiet_calls hq c hc (Or.inl (hall c hc)))
    have hwg : s.wg = 0 := by have := h.wgEq; omega
    simp only [Conflated.quiescent, Bool.and_eq_true, Bool.or_eq_true, bne_iff_ne, ne_eq] at hq
    rcases hq.2 with hne | hwe
    · exact absurd hwg hne
    · exact (h.waitRes hwe).1
  · intro hq hr
    have hsum := all_one_sum s.chains (fun c hc => quiet_calls hq c hc (Or.inr (by rw [h.ctxEq c hc]; exact hr)))
    have := h.wgEq; omega

/-! ## Construction: cancellations landing while the constructor runs (BB/Model/CtxBuild.lean) -/

/-- CombineContext returns an already-cancelled child only when its pre-check really saw a cancelled input -/
theorem combine_build_cancelled_has_cause (x : Ins) (trigP : List Nat) (trig : Nat → List Nat) (x' : Ins)
    (h : combineBuild x trigP trig = .cancelledChild x') : ∃ j : Nat, x'.others[j]? = some In.dead := by
  unfold combineBuild combineBuild1 at h
  generalize (if x.prim = In.nil then x else x.cancel trigP) = x1 at h
  by_cases h1 : x1.prim = In.dead
  · simp [h1] at h
  · simp only [h1, ↓reduceIte] at h
    by_cases h2 : (combineScan trig x1 (List.range x1.others.length)).2 = true
    · simp only [h2, ↓reduceIte] at h
      injection h with e; subst e
      exact combineScan_true _ _ _ h2
    · simp only [h2] at h
      by_cases h3 : (combineScan trig x1 (List.range x1.others.length)).1.others.all (· = In.nil) = true
      · simp [h3] at h
      · simp [h3] at h

/-- NO CANCELLATION IS LOST DURING CONSTRUCTION.  Whatever the environment cancels while `CombineContext` runs — before an
    input's pre-check, between its pre-check and its registration, or the primary itself at any point — if the
    constructor goes on to wire the inputs, then for every continuation (later cancellations, callbacks in any order):
    once the scheduled callbacks have run the result is cancelled if the primary or ANY non-nil other is cancelled,
    including those that were cancelled after their pre-check (their registration fires at once). -/
theorem combine_build_wired_complete (x : Ins) (trigP : List Nat) (trig : Nat → List Nat) (x' : Ins) (n : Nat)
    (pre : List CombineAct) (h : combineBuild x trigP trig = .wired x' n pre) (as : List CombineAct) :
    let s := (Combine.init n).run (pre ++ as)
    s.quiescent = true → (x'.prim = In.dead ∨ ∃ j : Nat, x'.others[j]? = some In.dead) → s.resultC = true := by
  intro s hq hc
  have hiff := combine_iff n (pre ++ as)
  simp only at hiff
  apply hiff.2.2.1 hq
  -- the cause is visible in the model state
  unfold combineBuild combineBuild1 at h
  generalize (if x.prim = In.nil then x else x.cancel trigP) = x1 at h
  by_cases h1 : x1.prim = In.dead
  · simp [h1] at h
  · simp only [h1, ↓reduceIte] at h
    by_cases h2 : (combineScan trig x1 (List.range x1.others.length)).2 = true
    · simp [h2] at h
    · simp only [h2] at h
      by_cases h3 : (combineScan trig x1 (List.range x1.others.length)).1.others.all (· = In.nil) = true
      · simp [h3] at h
      · simp only [h3] at h
        injection h with e1 e2 e3
        rw [e1] at e2 e3
        have hlen : (Combine.init n).others.length = n := by simp [Combine.init]
        rcases hc with hp | ⟨j, hj⟩
        · left
          show ((Combine.init n).run (pre ++ as)).primaryC = true
          rw [combine_run_append]
          apply combine_run_prim_mono
          apply combine_run_mem_cancelPrimary
          rw [← e3]; simp [hp]
        · right
          have hjl : j < x'.others.length := by
            rcases Nat.lt_or_ge j x'.others.length with h' | h'
            · exact h'
            · rw [List.getElem?_eq_none h'] at hj; cases hj
          have hi : liveIndex x'.others j < n := by
            rw [← e2]; exact liveIndex_lt _ _ _ hj (by decide)
          have hmem : CombineAct.cancelOther (liveIndex x'.others j) ∈ pre := by
            rw [← e3]
            apply List.mem_append_left
            apply List.mem_map.mpr
            refine ⟨j, ?_, rfl⟩
            simp only [List.mem_filter, List.mem_range, hjl, hj, decide_true, and_self]
          have hflag := combine_run_flag_mono ((Combine.init n).run pre) as _
            (combine_run_mem_cancelOther (Combine.init n) pre _ (by rw [hlen]; exact hi) hmem)
          rw [← combine_run_append] at hflag
          cases hx : ((Combine.init n).run (pre ++ as)).others[liveIndex x'.others j]? with
          | none => rw [hx] at hflag; simp at hflag
          | some p =>
            rw [hx] at hflag
            exact ⟨p, List.mem_of_getElem? hx, by simpa using hflag⟩

/-- … and it is never cancelled without a cause (soundness carries over unchanged: the wired state is a state of the
    post-construction model) -/
theorem combine_build_wired_sound (n : Nat) (pre as : List CombineAct) :
    let s := (Combine.init n).run (pre ++ as)
    s.resultC = true → s.primaryC = true ∨ ∃ p ∈ s.others, p.1 = true := (combine_iff n (pre ++ as)).1

/-- ConflatedContext: whatever is cancelled during construction, the built state is a state of the post-construction model
    (`Conflated.init n` followed by the cancel actions of inputs cancelled after they were wired), so `conflated_iff`
    applies to it: live while some wired input is live, cancelled once all are -/
theorem confl_build_is_model_state (l : List In) (trig : Nat → List Nat) (l' : List In) (idx : List (Option Nat)) (n : Nat)
    (pre : List ConflatedAct) (_h : conflBuild l trig = .wired l' idx n pre) (as : List ConflatedAct) :
    let s := (Conflated.init n).run (pre ++ as)
    (s.resultC = true → s.cancelFn = true ∨ ∀ c ∈ s.chains, c.otherC = true) ∧
    (s.quiescent = true → (∀ c ∈ s.chains, c.otherC = true) → s.resultC = true) :=
  ⟨(conflated_iff n (pre ++ as)).1, (conflated_iff n (pre ++ as)).2.2.1⟩

/-- an input that can never be cancelled (`Done() == nil`) is wired like any live input: it takes the next chain index,
    so the result can only be cancelled by its own cancel function -/
theorem confl_never_input_is_wired (trig : Nat → List Nat) (i : Nat) (is : List Nat) (l : List In) (idx : List (Option Nat))
    (n : Nat) (pre : List ConflatedAct) (h : (cancelAll l (trig i))[i]? = some In.never) :
    conflScan trig (i :: is) l idx n pre =
      conflScan trig is (cancelAll l (trig i)) (idx ++ [some n]) (n + 1)
        (pre ++ (trig i).filterMap (fun k => match idx[k]?, l[k]?, (cancelAll l (trig i))[k]? with
          | some (some c), some In.live, some In.dead => some (ConflatedAct.cancelInput c)
          | _, _, _ => none)) := by
  simp only [conflScan, h]
  rfl

/-! non-vacuity: other 0 is cancelled while the constructor checks other 1 (after 0's own pre-check): the registration on
    0 fires at once and the result is cancelled; a never-cancellable input keeps a conflated context alive -/
example : (match combineBuild { prim := .live, others := [.live, .live] } [] (fun j => if j = 1 then [0] else []) with
    | .wired _ n pre => some (n, pre, ((Combine.init n).run (pre ++ [.runCancel, .runStop])).resultC)
    | _ => none) = some (2, [.cancelOther 0], true) := by decide
example : (match conflBuild [.live, .never] (fun _ => []) with
    | .wired _ idx n pre => some (idx, n, pre, ((Conflated.init n).run (pre ++ [.cancelInput 0, .runF 0, .waiter])).resultC)
    | _ => none) = some ([some 0, some 1], 2, [], false) := by decide

/-! non-vacuity: both contexts of a chain cancelled before any callback runs; a combine with three
    others where the second fires; a conflated context over two inputs -/
example : ((Chain.init false false).run [.cancelOther, .cancelCtx, .runHook, .runF]).calls = 1 := by decide
example : ((Combine.init 3).run [.cancelOther 1, .runCancel, .runStop]).resultC = true ∧
    ((Combine.init 3).run [.cancelOther 1, .runCancel, .runStop]).others =
      [(false, .stopped), (true, .fired), (false, .stopped)] := by decide
example : ((Conflated.init 2).run [.cancelInput 0, .runF 0, .waiter]).resultC = false ∧
    ((Conflated.init 2).run [.cancelInput 0, .runF 0, .cancelInput 1, .runF 1, .waiter]).resultC = true := by decide

end BB.Props.C16
