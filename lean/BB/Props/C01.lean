/-
  C01 — Buffer: each consumer sees a gap-free, duplicate-free FIFO run of the put order.
  Property theorems only.  All statements are about every reachable state `run init ops` of the L1
  model: `ops` is an arbitrary interleaving (any number of producers, consumers, batch sizes,
  consumer creations/closures, arbitrary cleaner results at arbitrary points).
-/
import BB.Proofs.Chain

namespace BB.Props.C01
open BB.Buffer

/-- A successful Put appends its whole batch, contiguously and in argument order, at the end of the
    put order; a failed Put changes nothing.  (The order of `log` is the order in which the Put
    critical sections ran, so it is consistent with real time and each producer's program order.) -/
theorem put_appends_batch (s : St) (vs : List Nat) :
    ((put s vs).2 = none → (put s vs).1.log = s.log ++ vs) ∧
    ((put s vs).2 ≠ none → (put s vs).1 = s) := by
  unfold put
  split <;> simp

/-- No operation ever reorders, rewrites or removes an element of the put order. -/
theorem log_only_grows (s : St) (op : Op) : s.log <+: (step s op).log := by
  cases op with
  | put vs =>
    simp only [step, put]; split
    · exact List.prefix_refl _
    · exact List.prefix_append _ _
  | newConsumer => simp only [step, newConsumer]; split <;> exact List.prefix_refl _
  | get c => simp only [step, BB.Buffer.get]; split <;> exact List.prefix_refl _
  | commit c =>
    simp only [step, commit]; split
    · exact List.prefix_refl _
    · split
      · exact List.prefix_refl _
      · split <;> exact List.prefix_refl _
  | rollback c =>
    simp only [step, rollback]; split
    · exact List.prefix_refl _
    · split <;> exact List.prefix_refl _
  | cancelCons c => simp only [step, cancelCons]; split <;> exact List.prefix_refl _
  | finishClose c =>
    simp only [step, finishClose]; split
    · exact List.prefix_refl _
    · split <;> exact List.prefix_refl _
  | closeBuf => exact List.prefix_refl _
  | clean k => exact List.prefix_refl _
  | cleanDefault => exact List.prefix_refl _
  | cleanFixed m t => exact List.prefix_refl _

/-- The retained buffer is exactly the suffix of the put order from the base offset. -/
theorem buffer_is_suffix (ops : List Op) :
    (run init ops).buf = (run init ops).log.drop (run init ops).base ∧
    (run init ops).base ≤ (run init ops).log.length :=
  ⟨(inv_run inv_init ops).buf_eq, (inv_run inv_init ops).base_le⟩

/-- A Get that returns a value returns the element of the put order at the consumer's absolute
    read position `committed + delta` — whatever shifts the cleaner performed in between. -/
theorem get_returns_position (ops : List Op) (c v : Nat) (h : getTry (run init ops) c = .val v) :
    ∃ k, (run init ops).cons[c]? = some k ∧ (run init ops).log[k.committed + k.delta]? = some v := by
  obtain ⟨k, hk, _, _, _, _, hl⟩ := getTry_val (inv_run inv_init ops) h
  exact ⟨k, hk, hl⟩

/-- Every value any consumer ever received is the element of the (final) put order at the position
    it was read from: no invented value, no reordering. -/
theorem reads_are_put_order (ops : List Op) :
    ∀ r ∈ (run init ops).reads, (run init ops).log[r.2.1]? = some r.2.2 :=
  (inv_run inv_init ops).reads_ok

/-- A new consumer starts at the oldest value still retained (the base offset, i.e. the absolute
    index of `buffer[0]`). -/
theorem start_is_oldest_retained (s : St) (h : (newConsumer s).2 = none) :
    (newConsumer s).1.cons = s.cons ++ [Cons.mk s.base 0 s.base true false] := by
  unfold newConsumer at h ⊢
  split <;> simp_all

/-- The stream of a consumer: its first read is at its start position; every read is at most one
    past the previous read and never before the start (so re-reads after a rollback only go
    backwards inside the run); hence the set of positions read is exactly a contiguous run
    `[start, last]` — no gap, nothing older than the start. -/
theorem stream_contiguous (ops : List Op) (c : Nat) (k : Cons)
    (hk : (run init ops).cons[c]? = some k) :
    RevChain k.start (readsOf (run init ops) c).reverse ∧
    (∀ p ∈ readsOf (run init ops) c, k.start ≤ p) ∧
    (∀ q ∈ readsOf (run init ops) c, ∀ p, k.start ≤ p → p ≤ q → p ∈ readsOf (run init ops) c) := by
  have h := (chainInv_run chainInv_init ops).chain c k hk
  have hc : RevChain k.start (readsOf (run init ops) c).reverse := by
    cases hl : (readsOf (run init ops) c).reverse with
    | nil => simp [RevChain]
    | cons q rest => rw [hl] at h; exact h.2.2
  refine ⟨hc, ?_, ?_⟩
  · intro p hp
    exact revChain_ge hc p (List.mem_reverse.mpr hp)
  · intro q hq p h1 h2
    exact List.mem_reverse.mp (revChain_no_gap hc q (List.mem_reverse.mpr hq) p h1 h2)

/-- the read position never runs ahead of the put order and never before the start -/
theorem position_bounds (ops : List Op) (c : Nat) (k : Cons) (hk : (run init ops).cons[c]? = some k) :
    k.start ≤ k.committed ∧ k.committed + k.delta ≤ (run init ops).log.length :=
  let h := (inv_run inv_init ops).cons_ok k (List.mem_of_getElem? hk)
  ⟨h.start_le, h.pos_le⟩

/-! non-vacuity: two producers' batches, a shift while a consumer has an uncommitted read, a consumer
    created after the shift, a rollback and re-read -/
def exampleTrace : List Op :=
  [.newConsumer, .put [1, 2], .put [7, 8, 9], .get 0, .get 0, .commit 0, .get 0, .cleanDefault,
   .newConsumer, .get 1, .rollback 0, .get 0, .get 0]

example : (run init exampleTrace).base = 2 ∧ (run init exampleTrace).buf = [7, 8, 9] ∧
    readsOf (run init exampleTrace) 0 = [0, 1, 2, 2, 3] ∧ readsOf (run init exampleTrace) 1 = [2] ∧
    (run init exampleTrace).reads.map (·.2.2) = [1, 2, 7, 7, 7, 8] := by decide

end BB.Props.C01
