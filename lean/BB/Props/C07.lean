/-
  C07 — ChanPubSub: no deadlock and no false invariant panic under dynamic membership.

  Model: `BB.PubSub.sys` (BB/Model/PubSub.lean): unbounded senders and subscribers, every interleaving of the
  individual lock / atomic / channel operations; subscribers follow the documented contract.  Invariants:
  `BB.PubSub.PInv1` (lock structure) and `BB.PubSub.PInv2` (the caster word always equals the number of subscribers
  that still owe a receive-or-remove to the Send in progress), proved for every reachable state.
-/
import BB.Proofs.PubSub3

namespace BB.Props.C07
open BB.LTS BB.PubSub BB.Caster BB.Fun

/-- no call ever panics with a state-invariant violation (the caster's Add / Send validations and ChanPubSub's own
    check `ping.Add(subscribers) != subscribers` always pass) -/
theorem no_invariant_panic (s : St) (hr : Reach sys s) : s.panicked = false := (pinv12_reach s hr).2.np

/-- the subscriber counter is exactly the number of subscriptions made and not yet withdrawn -/
theorem subscriber_count_exact (s : St) (hr : Reach sys s) : s.subsCount = SUM cntI s := (pinv12_reach s hr).2.cntSum

/-- when every call has returned the counter is the number of standing subscriptions, the caster word is 0 and no pong
    is outstanding -/
theorem quiescent_counts (s : St) (hr : Reach sys s)
    (hu : ∀ t, (s.subs t).pc = .out ∨ (s.subs t).pc = .idle) (hsnd : ∀ a, (s.senders a).pc = .idle ∨ (s.senders a).pc = .done) :
    s.subsCount = SUM (fun u => if u.pc = .idle then 1 else 0) s ∧ s.word = 0 ∧ s.pongN = 0 ∧ s.sendMu = false ∧ s.sendingW = false := by
  obtain ⟨h1, h2⟩ := pinv12_reach s hr
  have noA : ∀ a, inA (s.senders a).pc = false := by intro a; rcases hsnd a with e | e <;> simp [e, inA]
  have noG : ∀ a, inG (s.senders a).pc = false := by intro a; rcases hsnd a with e | e <;> simp [e, inG]
  refine ⟨?_, (h2.quiet noA).1, (h2.gotIdle noG).2, ?_, ?_⟩
  · rw [h2.cntSum]; unfold SUM; apply sumTo_congr; intro t _
    rcases hu t with e | e <;> simp [cntI, e]
  · cases hm : s.sendMu with
    | false => rfl
    | true => obtain ⟨a, ha⟩ := h1.muEx hm; rcases hsnd a with e | e <;> rw [e] at ha <;> simp [inM] at ha
  · cases hw : s.sendingW with
    | false => rfl
    | true => obtain ⟨a, ha⟩ := h1.wEx hw; rcases hsnd a with e | e <;> rw [e] at ha <;> simp [inW] at ha

/-- Sends are serialised, and membership changes never overlap the part of a Send that holds sendingMu -/
theorem one_send_at_a_time (s : St) (hr : Reach sys s) (a b : Nat)
    (ha : inM (s.senders a).pc = true) (hb : inM (s.senders b).pc = true) : a = b := (pinv12_reach s hr).1.singleM a b ha hb
theorem no_membership_section_during_send (s : St) (hr : Reach sys s) (hw : s.sendingW = true) (t : Nat) :
    inRd (s.subs t).pc = false := (pinv12_reach s hr).1.noRd hw t

/-- an unsubscribe in the middle of a Send absorbs exactly its own copy: while a Send is armed, the number of values
    still to be sent is the number of subscribers that still owe a receive-or-remove plus the absorbs in progress -/
theorem sends_left_are_all_owed (s : St) (hr : Reach sys s) (a : Nat) (ha : (s.senders a).pc = .sending) :
    SUM oweI s + SUM absI s + (s.senders a).k = (s.senders a).armedN := ((pinv12_reach s hr).2.arm a ha).2.1

/-- a step that is not one of the two spin steps of the unsubscribe loop -/
def progressAct : Act → Bool
  | .tryFail _ => false
  | .pingZero _ => false
  | _ => true

/-- No deadlock: as long as some call has not returned — and fewer than MaxInt32 subscriptions exist — some step other
    than the unsubscribe spin is enabled.  (Contract: a subscriber between rounds is ready to receive.) -/
theorem no_deadlock (s : St) (hr : Reach sys s) (hbound : s.subsCount < MAXR)
    (hbusy : (∃ t, (s.subs t).pc ≠ .out ∧ (s.subs t).pc ≠ .idle) ∨ (∃ a, (s.senders a).pc ≠ .idle ∧ (s.senders a).pc ≠ .done)) :
    ∃ act, (sys.step s act).isSome = true ∧ progressAct act = true := by
  obtain ⟨h1, h2⟩ := pinv12_reach s hr
  have np := h2.np
  -- every busy subscriber state except `got`, `tryFailed` and `absorbing` has its next step enabled outright
  have subStep : ∀ t, (s.subs t).pc ≠ .out → (s.subs t).pc ≠ .idle → (s.subs t).pc ≠ .got → (s.subs t).pc ≠ .tryFailed →
      (s.subs t).pc ≠ .absorbing → ∃ act, (sys.step s act).isSome = true ∧ progressAct act = true := by
    intro t n1 n2 n3 n4 n5
    have ht := lt_nSubs h1 t n1
    have hc1 : cntI (s.subs t) ≤ SUM cntI s := SUM_pos_pt cntI ht
    cases hp : (s.subs t).pc with
    | out => exact absurd hp n1
    | idle => exact absurd hp n2
    | got => exact absurd hp n3
    | tryFailed => exact absurd hp n4
    | absorbing => exact absurd hp n5
    | subRlocked => exact ⟨.subInc t, by simp [sys, step, hp, hbound], rfl⟩
    | subAdded => exact ⟨.subUnlock t, by simp [sys, step, hp], rfl⟩
    | unsubLocked =>
      have : 0 < s.subsCount := by rw [h2.cntSum]; simp [cntI, hp] at hc1; omega
      exact ⟨.unsubDecL t, by simp [sys, step, hp, this], rfl⟩
    | unsubDec => exact ⟨.unsubUnlock t, by simp [sys, step, hp], rfl⟩
    | sawPing =>
      have : 0 < s.subsCount := by rw [h2.cntSum]; simp [cntI, hp] at hc1; omega
      exact ⟨.unsubDecN t, by simp [sys, step, hp, this], rfl⟩
    | decNoLock =>
      refine ⟨.pingSub t, ?_, rfl⟩
      simp only [sys, step, hp, np, and_self, ↓reduceIte]
      cases subOne s.word with
      | ok w r ab => by_cases hab : ab = 0 <;> simp [hab]
      | panic w => simp
  -- the Send in progress, if any, can move unless it waits for a subscriber; then that subscriber can
  have senderStep : ∀ a, inM (s.senders a).pc = true → ∃ act, (sys.step s act).isSome = true ∧ progressAct act = true := by
    intro a haM
    cases hp : (s.senders a).pc with
    | idle => rw [hp] at haM; simp [inM] at haM
    | wantSendMu => rw [hp] at haM; simp [inM] at haM
    | done => rw [hp] at haM; simp [inM] at haM
    | wantSending =>
      have hwf : s.sendingW = false := by
        cases hw : s.sendingW with
        | false => rfl
        | true =>
          obtain ⟨b, hb⟩ := h1.wEx hw
          have := h1.singleM b a (inM_of_inW hb) haM
          subst this; rw [hp] at hb; simp [inW] at hb
      by_cases hnr : noReaders s = true
      · exact ⟨.sending a, by simp [sys, step, hp, hwf, hnr], rfl⟩
      · -- some subscriber is inside a read-locked section: it can leave
        have : ∃ t, inRd (s.subs t).pc = true := by
          apply Classical.byContradiction
          intro hne; apply hnr
          unfold noReaders; rw [List.all_eq_true]; intro t _
          have : inRd (s.subs t).pc = false := by
            cases e : inRd (s.subs t).pc with
            | false => rfl
            | true => exact absurd ⟨t, e⟩ hne
          cases hpc : (s.subs t).pc <;> simp [hpc, inRd] at this ⊢
        obtain ⟨t, ht⟩ := this
        apply subStep t <;> intro e <;> rw [e] at ht <;> simp [inRd] at ht
    | holding => exact ⟨.count a, by simp only [sys, step, hp, ↓reduceIte]; split <;> rfl, rfl⟩
    | counted =>
      refine ⟨.pingAdd a, ?_, rfl⟩
      simp only [sys, step, hp, np, and_self, ↓reduceIte]
      cases add s.word ((s.senders a).n : Int) with
      | ok w r ab => simp only; split <;> rfl
      | panic w => rfl
    | added => exact ⟨.cfast a, by simp only [sys, step, hp, ↓reduceIte]; split <;> rfl, rfl⟩
    | loaded =>
      by_cases hz : (s.senders a).snap = 0
      · refine ⟨.cload a, ?_, rfl⟩
        simp only [sys, step, hp, hz, np, and_self, ↓reduceIte]
        cases arm s.word <;> rfl
      · refine ⟨.ccas a, ?_, rfl⟩
        obtain ⟨hw, hb, _⟩ := h2.pre a (Or.inr hp)
        simp only [sys, step, hp, hz, ne_eq, not_false_eq_true, and_self, ↓reduceIte]
        split
        · rename_i heq
          have hpos : 0 < SUM oweI s := by
            cases Nat.eq_zero_or_pos (SUM oweI s) with
            | inl e => rw [← heq, hw, e, idleWord0] at hz; exact absurd rfl hz
            | inr e => exact e
          rw [← heq, hw, arm_idle _ hpos hb]; rfl
        · rfl
    | sending =>
      obtain ⟨hw, hsum, hb, hgd, hpn, hdk⟩ := h2.arm a hp
      by_cases hk : (s.senders a).k = (s.senders a).armedN
      · refine ⟨.cfinal a, ?_, rfl⟩
        simp only [sys, step, hp, hk, np, and_self, ↓reduceIte]
        cases finish s.word (s.senders a).armedN <;> rfl
      · have hklt : (s.senders a).k < (s.senders a).armedN := by omega
        by_cases hab : 0 < SUM absI s
        · obtain ⟨t, _, htp⟩ := sumTo_pos_witness _ hab
          have : (s.subs t).pc = .absorbing := by
            cases e : (s.subs t).pc <;> simp [absI, e] at htp ⊢
          exact ⟨.absorb a t, by simp [sys, step, hp, hklt, this], rfl⟩
        · have ho : 0 < SUM oweI s := by omega
          obtain ⟨t, _, htp⟩ := sumTo_pos_witness _ ho
          have howes : (s.subs t).owes = true := by
            cases e : (s.subs t).owes <;> simp [oweI, e] at htp ⊢
          rcases h2.owesWhere t howes with e | e | e | e
          · exact ⟨.recv a t, by simp [sys, step, hp, hklt, e], rfl⟩
          · -- it is in the unsubscribe loop and will see the Send in progress
            refine ⟨.pingNonZero t, ?_, rfl⟩
            have h0 := add_zero_armed (SUM oweI s + s.delivered) (by omega)
            simp only [sys, step, e, np, and_self, ↓reduceIte, hw, h0]
            have : ¬ (SUM oweI s + s.delivered = 0) := by omega
            simp only [ne_eq, this, not_false_eq_true, ↓reduceIte]; rfl
          · apply subStep t <;> simp [e]
          · apply subStep t <;> simp [e]
    | checked => exact ⟨.unsending a, by simp [sys, step, hp], rfl⟩
    | released =>
      have hc := h2.chk a (Or.inr hp)
      refine ⟨.pong a, ?_, rfl⟩
      simp only [sys, step, hp, ↓reduceIte]
      split
      · rfl
      · simp [hc.2]
    | ponging =>
      have hpg := h2.png a hp
      by_cases hz : s.pongN = 0
      · exact ⟨.ponged a, by simp [sys, step, hp, hz], rfl⟩
      · have : 0 < SUM gotI s := by omega
        obtain ⟨t, _, htp⟩ := sumTo_pos_witness _ this
        have : (s.subs t).pc = .got := by
          cases e : (s.subs t).pc <;> simp [gotI, e] at htp ⊢
        exact ⟨.consume t, by simp [sys, step, this]; omega, rfl⟩
    | unlocking => exact ⟨.sdone a, by simp [sys, step, hp], rfl⟩
  -- if sendMu is held, its holder (or whoever it waits for) can move
  by_cases hmu : s.sendMu = true
  · obtain ⟨a, ha⟩ := h1.muEx hmu
    exact senderStep a ha
  · have hmuf : s.sendMu = false := by cases e : s.sendMu <;> simp [e] at hmu ⊢
    have noM := nobody_inM_of_free h1 hmuf
    have noA : ∀ a, inA (s.senders a).pc = false := by
      intro a; cases e : inA (s.senders a).pc with
      | false => rfl
      | true => have := noM a; rw [inM_of_inA e] at this; cases this
    have noG : ∀ a, inG (s.senders a).pc = false := by
      intro a; cases e : inG (s.senders a).pc with
      | false => rfl
      | true => have := noM a; rw [inM_of_inG e] at this; cases this
    have hwf : s.sendingW = false := by
      cases hw : s.sendingW with
      | false => rfl
      | true => obtain ⟨b, hb⟩ := h1.wEx hw; have := noM b; rw [inM_of_inW hb] at this; cases this
    rcases hbusy with ⟨t, n1, n2⟩ | ⟨a, n1, n2⟩
    · -- a busy subscriber while no Send is in progress
      have hq := (h2.quiet noA).2 t
      have hg := SUM_zero_pt gotI (h2.gotIdle noG).1 rfl h1 t
      cases hp : (s.subs t).pc with
      | got => simp [gotI, hp] at hg
      | absorbing => exact absurd hp hq.2.2.2
      | tryFailed => exact ⟨.tryOk t, by simp [sys, step, hp, hwf], rfl⟩
      | out => exact absurd hp n1
      | idle => exact absurd hp n2
      | _ => apply subStep t <;> simp [hp]
    · -- a busy sender that does not hold sendMu wants it, and it is free
      cases hp : (s.senders a).pc with
      | idle => exact absurd hp n1
      | done => exact absurd hp n2
      | wantSendMu => exact ⟨.sendMu a, by simp [sys, step, hp, hmuf], rfl⟩
      | _ => have := noM a; rw [hp] at this; simp [inM] at this

end BB.Props.C07
