/-
  C07 — ChanPubSub: no deadlock and no false invariant panic under dynamic membership.

  Model: `BB.PubSub.sys` (BB/Model/PubSub.lean): unbounded senders and subscribers, every interleaving of the
  individual lock / atomic / channel operations; subscribers follow the documented contract.  Invariants:
  `BB.PubSub.PInv1` (lock structure) and `BB.PubSub.PInv2` (the caster word always equals the number of subscribers
  that still owe a receive-or-remove to the Send in progress), proved for every reachable state.
-/
import BB.Proofs.PubSub3
import BB.Proofs.PubSubLive

namespace BB.Props.C07
open BB.LTS BB.PubSub BB.Caster BB.Fun

/-- no call ever panics with a state-invariant violation (the caster's Add / Send validations and ChanPubSub's own
    check `ping.Add(subscribers) != subscribers` always pass) -/
theorem no_invariant_panic (s : St) (hr : Reach sys s) : s.panicked = false := (pinv12_reach s hr).2.np

/-- the subscriber counter is exactly the number of subscriptions made and not yet withdrawn -/
theorem subscriber_count_exact (s : St) (hr : Reach sys s) : s.subsCount = SUM cntI s := (pinv12_reach s hr).2.cntSum

/-- when every call has returned the counter is the number of standing subscriptions, the caster word is 0 and no pong
    is outstanding -/
theorem quiescent_counts (s : St) (hr : Reach sys s)
    (hu : ∀ t, (s.subs t).pc = .out ∨ (s.subs t).pc = .idle) (hsnd : ∀ a, (s.senders a).pc = .idle ∨ (s.senders a).pc = .done) :
    s.subsCount = SUM (fun u => if u.pc = .idle then 1 else 0) s ∧ s.word = 0 ∧ s.pongN = 0 ∧ s.sendMu = false ∧ s.sendingW = false := by
  obtain ⟨h1, h2⟩ := pinv12_reach s hr
  have noA : ∀ a, inA (s.senders a).pc = false := by intro a; rcases hsnd a with e | e <;> simp [e, inA]
  have noG : ∀ a, inG (s.senders a).pc = false := by intro a; rcases hsnd a with e | e <;> simp [e, inG]
  refine ⟨?_, (h2.quiet noA).1, (h2.gotIdle noG).2, ?_, ?_⟩
  · rw [h2.cntSum]; unfold SUM; apply sumTo_congr; intro t _
    rcases hu t with e | e <;> simp [cntI, e]
  · cases hm : s.sendMu with
    | false => rfl
    | true => obtain ⟨a, ha⟩ := h1.muEx hm; rcases hsnd a with e | e <;> rw [e] at ha <;> simp [inM] at ha
  · cases hw : s.sendingW with
    | false => rfl
    | true => obtain ⟨a, ha⟩ := h1.wEx hw; rcases hsnd a with e | e <;> rw [e] at ha <;> simp [inW] at ha

/-- Sends are serialised, and membership changes never overlap the part of a Send that holds sendingMu -/
theorem one_send_at_a_time (s : St) (hr : Reach sys s) (a b : Nat)
    (ha : inM (s.senders a).pc = true) (hb : inM (s.senders b).pc = true) : a = b := (pinv12_reach s hr).1.singleM a b ha hb
theorem no_membership_section_during_send (s : St) (hr : Reach sys s) (hw : s.sendingW = true) (t : Nat) :
    inRd (s.subs t).pc = false := (pinv12_reach s hr).1.noRd hw t

/-- an unsubscribe in the middle of a Send absorbs exactly its own copy: while a Send is armed, the number of values
    still to be sent is the number of subscribers that still owe a receive-or-remove plus the absorbs in progress -/
theorem sends_left_are_all_owed (s : St) (hr : Reach sys s) (a : Nat) (ha : (s.senders a).pc = .sending) :
    SUM oweI s + SUM absI s + (s.senders a).k = (s.senders a).armedN := ((pinv12_reach s hr).2.arm a ha).2.1

/-- a step that is not one of the two spin steps of the unsubscribe loop -/
def progressAct : Act → Bool
  | .tryFail _ => false
  | .pingZero _ => false
  | _ => true

/-- No deadlock: as long as some call has not returned — and fewer than MaxInt32 subscriptions exist — some step other
    than the unsubscribe spin is enabled.  (Contract: a subscriber between rounds is ready to receive.) -/
theorem no_deadlock (s : St) (hr : Reach sys s) (hbound : s.subsCount < MAXR)
    (hbusy : (∃ t, (s.subs t).pc ≠ .out ∧ (s.subs t).pc ≠ .idle) ∨ (∃ a, (s.senders a).pc ≠ .idle ∧ (s.senders a).pc ≠ .done)) :
    ∃ act, (sys.step s act).isSome = true ∧ progressAct act = true := by
  obtain ⟨h1, h2⟩ := pinv12_reach s hr
  have np := h2.np
  -- every busy subscriber state except `got`, `tryFailed` and `absorbing` has its next step enabled outright
  have subStep : ∀ t, (s.subs t).pc ≠ .out → (s.subs t).pc ≠ .idle → (s.subs t).pc ≠ .got → (s.subs t).pc ≠ .tryFailed →
      (s.subs t).pc ≠ .absorbing → ∃ act, (sys.step s act).isSome = true ∧ progressAct act = true := by
    intro t n1 n2 n3 n4 n5
    have ht := lt_nSubs h1 t n1
    have hc1 : cntI (s.subs t) ≤ SUM cntI s := SUM_pos_pt cntI ht
    cases hp : (s.subs t).pc with
    | out => exact absurd hp n1
    | idle => exact absurd hp n2
    | got => exact absurd hp n3
    | tryFailed => exact absurd hp n4
    | absorbing => exact absurd hp n5
    | subRlocked => exact ⟨.subInc t, by simp [sys, step, hp, hbound], rfl⟩
    | subAdded => exact ⟨.subUnlock t, by simp [sys, step, hp], rfl⟩
    | unsubLocked =>
      have : 0 < s.subsCount := by rw [h2.cntSum]; simp [cntI, hp] at hc1; omega
      exact ⟨.unsubDecL t, by simp [sys, step, hp, this], rfl⟩
    | unsubDec => exact ⟨.unsubUnlock t, by simp [sys, step, hp], rfl⟩
    | sawPing =>
      have : 0 < s.subsCount := by rw [h2.cntSum]; simp [cntI, hp] at hc1; omega
      exact ⟨.unsubDecN t, by simp [sys, step, hp, this], rfl⟩
    | decNoLock =>
      refine ⟨.pingSub t, ?_, rfl⟩
      simp only [sys, step, hp, np, and_self, ↓reduceIte]
      cases subOne s.word with
      | ok w r ab => by_cases hab : ab = 0 <;> simp [hab]
      | panic w => simp
  -- the Send in progress, if any, can move unless it waits for a subscriber; then that subscriber can
  have senderStep : ∀ a, inM (s.senders a).pc = true → ∃ act, (sys.step s act).isSome = true ∧ progressAct act = true := by
    intro a haM
    cases hp : (s.senders a).pc with
    | idle => rw [hp] at haM; simp [inM] at haM
    | wantSendMu => rw [hp] at haM; simp [inM] at haM
    | done => rw [hp] at haM; simp [inM] at haM
    | wantSending =>
      have hwf : s.sendingW = false := by
        cases hw : s.sendingW with
        | false => rfl
        | true =>
          obtain ⟨b, hb⟩ := h1.wEx hw
          have := h1.singleM b a (inM_of_inW hb) haM
          subst this; rw [hp] at hb; simp [inW] at hb
      by_cases hnr : noReaders s = true
      · exact ⟨.sending a, by simp [sys, step, hp, hwf, hnr], rfl⟩
      · -- some subscriber is inside a read-locked section: it can leave
        have : ∃ t, inRd (s.subs t).pc = true := by
          apply Classical.byContradiction
          intro hne; apply hnr
          unfold noReaders; rw [List.all_eq_true]; intro t _
          have : inRd (s.subs t).pc = false := by
            cases e : inRd (s.subs t).pc with
            | false => rfl
            | true => exact absurd ⟨t, e⟩ hne
          cases hpc : (s.subs t).pc <;> simp [hpc, inRd] at this ⊢
        obtain ⟨t, ht⟩ := this
        apply subStep t <;> intro e <;> rw [e] at ht <;> simp [inRd] at ht
    | holding => exact ⟨.count a, by simp only [sys, step, hp, ↓reduceIte]; split <;> rfl, rfl⟩
    | counted =>
      refine ⟨.pingAdd a, ?_, rfl⟩
      simp only [sys, step, hp, np, and_self, ↓reduceIte]
      cases add s.word ((s.senders a).n : Int) with
      | ok w r ab => simp only; split <;> rfl
      | panic w => rfl
    | added => exact ⟨.cfast a, by simp only [sys, step, hp, ↓reduceIte]; split <;> rfl, rfl⟩
    | loaded =>
      by_cases hz : (s.senders a).snap = 0
      · refine ⟨.cload a, ?_, rfl⟩
        simp only [sys, step, hp, hz, np, and_self, ↓reduceIte]
        cases arm s.word <;> rfl
      · refine ⟨.ccas a, ?_, rfl⟩
        obtain ⟨hw, hb, _⟩ := h2.pre a (Or.inr hp)
        simp only [sys, step, hp, hz, ne_eq, not_false_eq_true, and_self, ↓reduceIte]
        split
        · rename_i heq
          have hpos : 0 < SUM oweI s := by
            cases Nat.eq_zero_or_pos (SUM oweI s) with
            | inl e => rw [← heq, hw, e, idleWord0] at hz; exact absurd rfl hz
            | inr e => exact e
          rw [← heq, hw, arm_idle _ hpos hb]; rfl
        · rfl
    | sending =>
      obtain ⟨hw, hsum, hb, hgd, hpn, hdk⟩ := h2.arm a hp
      by_cases hk : (s.senders a).k = (s.senders a).armedN
      · refine ⟨.cfinal a, ?_, rfl⟩
        simp only [sys, step, hp, hk, np, and_self, ↓reduceIte]
        cases finish s.word (s.senders a).armedN <;> rfl
      · have hklt : (s.senders a).k < (s.senders a).armedN := by omega
        by_cases hab : 0 < SUM absI s
        · obtain ⟨t, _, htp⟩ := sumTo_pos_witness _ hab
          have : (s.subs t).pc = .absorbing := by
            cases e : (s.subs t).pc <;> simp [absI, e] at htp ⊢
          exact ⟨.absorb a t, by simp [sys, step, hp, hklt, this], rfl⟩
        · have ho : 0 < SUM oweI s := by omega
          obtain ⟨t, _, htp⟩ := sumTo_pos_witness _ ho
          have howes : (s.subs t).owes = true := by
            cases e : (s.subs t).owes <;> simp [oweI, e] at htp ⊢
          rcases h2.owesWhere t howes with e | e | e | e
          · exact ⟨.recv a t, by simp [sys, step, hp, hklt, e], rfl⟩
          · -- it is in the unsubscribe loop and will see the Send in progress
            refine ⟨.pingNonZero t, ?_, rfl⟩
            have h0 := add_zero_armed (SUM oweI s + s.delivered) (by omega)
            simp only [sys, step, e, np, and_self, ↓reduceIte, hw, h0]
            have : ¬ (SUM oweI s + s.delivered = 0) := by omega
            simp only [ne_eq, this, not_false_eq_true, ↓reduceIte]; rfl
          · apply subStep t <;> simp [e]
          · apply subStep t <;> simp [e]
    | checked => exact ⟨.unsending a, by simp [sys, step, hp], rfl⟩
    | released =>
      have hc := h2.chk a (Or.inr hp)
      refine ⟨.pong a, ?_, rfl⟩
      simp only [sys, step, hp, ↓reduceIte]
      split
      · rfl
      · simp [hc.2]
    | ponging =>
      have hpg := h2.png a hp
      by_cases hz : s.pongN = 0
      · exact ⟨.ponged a, by simp [sys, step, hp, hz], rfl⟩
      · have : 0 < SUM gotI s := by omega
        obtain ⟨t, _, htp⟩ := sumTo_pos_witness _ this
        have : (s.subs t).pc = .got := by
          cases e : (s.subs t).pc <;> simp [gotI, e] at htp ⊢
        exact ⟨.consume t, by simp [sys, step, this]; omega, rfl⟩
    | unlocking => exact ⟨.sdone a, by simp [sys, step, hp], rfl⟩
  -- if sendMu is held, its holder (or whoever it waits for) can move
  by_cases hmu : s.sendMu = true
  · obtain ⟨a, ha⟩ := h1.muEx hmu
    exact senderStep a ha
  · have hmuf : s.sendMu = false := by cases e : s.sendMu <;> simp [e] at hmu ⊢
    have noM := nobody_inM_of_free h1 hmuf
    have noA : ∀ a, inA (s.senders a).pc = false := by
      intro a; cases e : inA (s.senders a).pc with
      | false => rfl
      | true => have := noM a; rw [inM_of_inA e] at this; cases this
    have noG : ∀ a, inG (s.senders a).pc = false := by
      intro a; cases e : inG (s.senders a).pc with
      | false => rfl
      | true => have := noM a; rw [inM_of_inG e] at this; cases this
    have hwf : s.sendingW = false := by
      cases hw : s.sendingW with
      | false => rfl
      | true => obtain ⟨b, hb⟩ := h1.wEx hw; have := noM b; rw [inM_of_inW hb] at this; cases this
    rcases hbusy with ⟨t, n1, n2⟩ | ⟨a, n1, n2⟩
    · -- a busy subscriber while no Send is in progress
      have hq := (h2.quiet noA).2 t
      have hg := SUM_zero_pt gotI (h2.gotIdle noG).1 rfl h1 t
      cases hp : (s.subs t).pc with
      | got => simp [gotI, hp] at hg
      | absorbing => exact absurd hp hq.2.2.2
      | tryFailed => exact ⟨.tryOk t, by simp [sys, step, hp, hwf], rfl⟩
      | out => exact absurd hp n1
      | idle => exact absurd hp n2
      | _ => apply subStep t <;> simp [hp]
    · -- a busy sender that does not hold sendMu wants it, and it is free
      cases hp : (s.senders a).pc with
      | idle => exact absurd hp n1
      | done => exact absurd hp n2
      | wantSendMu => exact ⟨.sendMu a, by simp [sys, step, hp, hmuf], rfl⟩
      | _ => have := noM a; rw [hp] at this; simp [inM] at this

/-! ### Liveness: a Send that has acquired sendingMu returns -/

theorem last_before_change (p : Nat → Prop) (i j : Nat) (hij : i ≤ j) (hi : p i) (hj : ¬ p j) : ∃ k, i ≤ k ∧ k < j ∧ p k ∧ ¬ p (k + 1) := by
  induction j with
  | zero => have : i = 0 := by omega
            subst this; exact absurd hi hj
  | succ j ih =>
    by_cases hpj : p j
    · by_cases e : i ≤ j
      · exact ⟨j, e, by omega, hpj, hj⟩
      · have : i = j + 1 := by omega
        subst this; exact absurd hi hj
    · by_cases e : i ≤ j
      · obtain ⟨k, h1, h2, h3, h4⟩ := ih e hpj
        exact ⟨k, h1, by omega, h3, h4⟩
      · have : i = j + 1 := by omega
        subst this; exact absurd hi hj

/-- SEND TERMINATES.  Along every run that is weakly fair for the class `sendProgress a` — the Send's own steps, the
    rendezvous in which a subscriber receives or absorbs, Wait's consumption of a pong and the non-spin steps of the
    unsubscribe path (subscribers follow the contract: they receive-then-Wait or unsubscribe; the spin steps of a failed
    TryRLock are NOT assumed to be anything but harmless) — a Send that holds sendingMu (or is past it) at step `i` returns.
    The rank is in `BB/Proofs/PubSubLive.lean`; dynamic membership is covered: subscribers may subscribe, unsubscribe in the
    middle of the Send, absorb their copy, fail the CAS of the sender any number of times (each failure is paid for by the
    unsubscription that caused it). -/
theorem send_past_the_lock_returns (a : Nat) (r : Run sys) (hfair : WeakFair sys (fun _ act => sendProgress a act) r)
    (i : Nat) (hi : inH ((r.st i).senders a).pc = true) :
    ∃ k, i ≤ k ∧ inH ((r.st k).senders a).pc = true ∧ ((r.st (k + 1)).senders a).pc = .done := by
  obtain ⟨j, hij, hj⟩ := send_leadsTo_out a r hfair i
  obtain ⟨k, h1, _, h3, h4⟩ := last_before_change (fun n => inH ((r.st n).senders a).pc = true) i j hij hi (by simp [hj])
  have hn := r.next k
  cases hact : r.act k with
  | none => simp only [hact] at hn; rw [hn] at h4; exact absurd h3 h4
  | some act =>
    simp only [hact] at hn
    have hout : inH ((r.st (k + 1)).senders a).pc = false := by cases e : inH ((r.st (k + 1)).senders a).pc <;> simp_all
    exact ⟨k, h1, h3, send_exit_is_done a h3 hn hout⟩

/-- WAIT RETURNS, AND THE UNSUBSCRIBE PATH THROUGH THE CASTER ENDS.  Under the same fairness, if a Send `a` is past the lock at
    step `i`, a later state is reached in which that Send has returned and released sendMu, and in that state no subscriber is
    between a receive and the end of its Wait, none is absorbing a copy, none owes a receive-or-remove: every Wait that was
    pending on this Send has consumed its pong, every mid-send unsubscribe has finished with the caster.  (A subscriber spinning on
    a failed TryRLock then finds sendingMu free: `no_deadlock`.) -/
theorem pending_waits_and_absorbs_finish (a : Nat) (r : Run sys) (hfair : WeakFair sys (fun _ act => sendProgress a act) r)
    (i : Nat) (hi : inH ((r.st i).senders a).pc = true) :
    ∃ j, i < j ∧ ((r.st j).senders a).pc = .done ∧ (r.st j).sendMu = false ∧
      ∀ t, ((r.st j).subs t).pc ≠ .got ∧ ((r.st j).subs t).pc ≠ .absorbing ∧ ((r.st j).subs t).owes = false := by
  obtain ⟨k, h1, h3, hd⟩ := send_past_the_lock_returns a r hfair i hi
  have hn := r.next k
  cases hact : r.act k with
  | none => simp only [hact] at hn; rw [hn] at hd; rw [hd] at h3; simp [inH] at h3
  | some act =>
    simp only [hact] at hn
    have hout : inH ((r.st (k + 1)).senders a).pc = false := by rw [hd]; rfl
    have hmu := exit_releases_sendMu a h3 hn hout
    obtain ⟨p1, p2⟩ := pinv12_reach _ (run_reach _ r (k + 1))
    exact ⟨k + 1, by omega, hd, hmu, after_return_all_acknowledged p1 p2 hmu⟩

/-! a weakly fair run to which the theorem applies: two subscribers, one Send; one subscriber receives and acknowledges, the
    other fails its TryRLock, sees the ping, unsubscribes in the middle of the Send and absorbs its copy; then stuttering -/
def demoActs : Nat → Option Act
  | 0 => some (.subLock 0) | 1 => some (.subInc 0) | 2 => some (.subUnlock 0) | 3 => some (.subLock 1) | 4 => some (.subInc 1)
  | 5 => some (.subUnlock 1) | 6 => some (.sbegin 0 7) | 7 => some (.sendMu 0) | 8 => some (.sending 0) | 9 => some (.count 0)
  | 10 => some (.pingAdd 0) | 11 => some (.cfast 0) | 12 => some (.cload 0) | 13 => some (.ccas 0) | 14 => some (.tryFail 1)
  | 15 => some (.pingNonZero 1) | 16 => some (.unsubDecN 1) | 17 => some (.pingSub 1) | 18 => some (.recv 0 0)
  | 19 => some (.absorb 0 1) | 20 => some (.cfinal 0) | 21 => some (.unsending 0) | 22 => some (.pong 0) | 23 => some (.consume 0)
  | 24 => some (.ponged 0) | 25 => some (.sdone 0)
  | _ => none

def demoSt : Nat → St
  | 0 => sys.init
  | n + 1 => match demoActs n with
    | some act => (sys.step (demoSt n) act).getD (demoSt n)
    | none => demoSt n

theorem demoSt_final (k : Nat) : demoSt (k + 26) = demoSt 26 := by
  induction k with
  | zero => rfl
  | succ k ih => show demoSt (k + 26) = demoSt 26; exact ih

set_option maxRecDepth 20000 in
unseal subOne in
def demoRun : Run sys where
  st := demoSt
  act := demoActs
  start := rfl
  next := by
    intro i
    match i with
    | 0 => rfl | 1 => rfl | 2 => rfl | 3 => rfl | 4 => rfl | 5 => rfl | 6 => rfl | 7 => rfl | 8 => rfl | 9 => rfl
    | 10 => rfl | 11 => rfl | 12 => rfl | 13 => rfl | 14 => rfl | 15 => rfl | 16 => rfl | 17 => rfl | 18 => rfl | 19 => rfl
    | 20 => rfl | 21 => rfl | 22 => rfl | 23 => rfl | 24 => rfl | 25 => rfl
    | k + 26 => rfl

set_option maxRecDepth 20000 in
unseal subOne in
theorem demoRun_fair : WeakFair sys (fun _ act => sendProgress 0 act) demoRun := by
  intro i hen
  by_cases hi : i ≤ 25
  · exact ⟨25, hi, _, rfl, rfl⟩
  · exfalso
    obtain ⟨act, hH, he⟩ := hen i (Nat.le_refl _)
    have hst : demoRun.st i = demoSt 26 := by
      have := demoSt_final (i - 26); rwa [show i - 26 + 26 = i by omega] at this
    rw [hst] at he
    have hpc : ((demoSt 26).senders 0).pc = .done := by rfl
    have hn : (demoSt 26).nSubs = 2 := by rfl
    have h0 : ((demoSt 26).subs 0).pc = .idle := by rfl
    have h1 : ((demoSt 26).subs 1).pc = .out := by rfl
    have hfresh := (pinv12_reach _ (run_reach _ demoRun 26)).1.fresh
    have hsub : ∀ t, ((demoSt 26).subs t).pc = .idle ∨ ((demoSt 26).subs t).pc = .out := by
      intro t
      match t with
      | 0 => exact Or.inl h0
      | 1 => exact Or.inr h1
      | t + 2 =>
        right
        have hz : (demoSt 26).subs (t + 2) = {} := hfresh (t + 2) (by show (demoSt 26).nSubs ≤ t + 2; rw [hn]; omega)
        rw [hz]
    cases act <;> simp only [sendProgress] at hH
    case count b => subst hH; simp [enabled, sys, step, hpc] at he
    case pingAdd b => subst hH; simp [enabled, sys, step, hpc] at he
    case cfast b => subst hH; simp [enabled, sys, step, hpc] at he
    case cload b => subst hH; simp [enabled, sys, step, hpc] at he
    case ccas b => subst hH; simp [enabled, sys, step, hpc] at he
    case cfinal b => subst hH; simp [enabled, sys, step, hpc] at he
    case unsending b => subst hH; simp [enabled, sys, step, hpc] at he
    case pong b => subst hH; simp [enabled, sys, step, hpc] at he
    case ponged b => subst hH; simp [enabled, sys, step, hpc] at he
    case sdone b => subst hH; simp [enabled, sys, step, hpc] at he
    case recv b t => subst hH; simp [enabled, sys, step, hpc] at he
    case absorb b t => subst hH; simp [enabled, sys, step, hpc] at he
    case consume t => rcases hsub t with e | e <;> simp [enabled, sys, step, e] at he
    case pingNonZero t => rcases hsub t with e | e <;> simp [enabled, sys, step, e] at he
    case unsubDecN t => rcases hsub t with e | e <;> simp [enabled, sys, step, e] at he
    case pingSub t => rcases hsub t with e | e <;> simp [enabled, sys, step, e] at he

set_option maxRecDepth 20000 in
unseal subOne in
example : ∃ j, 18 < j ∧ ((demoRun.st j).senders 0).pc = .done ∧ (demoRun.st j).sendMu = false ∧
    ∀ t, ((demoRun.st j).subs t).pc ≠ .got ∧ ((demoRun.st j).subs t).pc ≠ .absorbing ∧ ((demoRun.st j).subs t).owes = false :=
  pending_waits_and_absorbs_finish 0 demoRun demoRun_fair 18 (by rfl)

set_option maxRecDepth 20000 in
unseal subOne in
example : ∃ k, 9 ≤ k ∧ inH ((demoRun.st k).senders 0).pc = true ∧ ((demoRun.st (k + 1)).senders 0).pc = .done :=
  send_past_the_lock_returns 0 demoRun demoRun_fair 9 (by rfl)

end BB.Props.C07
