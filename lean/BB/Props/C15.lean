/-
  C15 — Notifier: a publish reaches each eligible subscription exactly once, no one else.
  The publish loop (`failureCases` / `failureRefs` / `successCases` and the index re-basing) is
  modelled faithfully (`BB.Notifier.iter`); the theorems hold for every set of eligible
  subscriptions in every (map-iteration) order and for every sequence of `reflect.Select` outcomes.
-/
import BB.Proofs.Notifier

namespace BB.Props.C15
open BB.Notifier

/-- the three slices are exactly what the construction loop builds from the eligible subscribers
    still to be served, `subs` (pairs `(id, hasContext)` in map-iteration order) -/
def Wf (l : Loop) (subs : List (Nat × Bool)) : Prop :=
  l.succ = succOf subs ∧ l.fail = failOf subs ∧ l.refs = refsOf 0 subs

theorem build_wf (e : Nat) (subs : List (Nat × Bool)) : Wf (build e subs) subs := by
  simp [Wf, build, buildFrom_eq]

/-- the exit case (publish context cancelled) ends the publish -/
theorem iter_exit (l : Loop) (idx : Nat) (h : idx < l.exitN) : iter l idx = .exit := by
  simp [iter, h]

/-- a subscriber's context firing removes exactly that subscriber — its send case, its failure case
    and its ref — and re-bases the remaining refs so that they still point at their own send cases -/
theorem iter_failure (l : Loop) (subs : List (Nat × Bool)) (hwf : Wf l subs) (i : Nat) (hi : i < l.fail.length) :
    ∃ k id l', subs[k]? = some (id, true) ∧ l.fail[i]? = some id ∧
      iter l (l.exitN + i) = .continue_ l' ∧ Wf l' (subs.eraseIdx k) ∧
      l'.cancelled = l.cancelled ++ [id] ∧ l'.delivered = l.delivered ∧ l'.exitN = l.exitN := by
  obtain ⟨hs, hf, hr⟩ := hwf
  rw [hf] at hi
  obtain ⟨k, id, h1, h2, h3, h4⟩ := refsOf_inv 0 subs i hi
  simp only [Nat.zero_add] at h3
  have hsucc : l.succ[k]? = some id := by rw [hs]; simp [succOf, h1]
  have hiter : iter l (l.exitN + i) = .continue_ { l with
      succ := l.succ.eraseIdx k, fail := l.fail.eraseIdx i, refs := (decLoop k l.refs).eraseIdx i,
      cancelled := l.cancelled ++ [id] } := by
    have hlt : ¬ (l.exitN + i < l.exitN) := by omega
    have hfl : l.exitN + i - l.exitN < l.fail.length := by rw [hf]; omega
    simp only [iter, hlt, if_false, hfl, if_true]
    have : l.exitN + i - l.exitN = i := by omega
    rw [this, hr, h3]
    simp only [hsucc]
  refine ⟨k, id, _, h1, by rw [hf]; exact h4, hiter, ⟨?_, ?_, ?_⟩, rfl, rfl, rfl⟩
  · simp only; rw [hs, succOf_erase]
  · simp only; rw [hf, failOf_erase subs k _ h1]; simp [h2]
  · simp only
    rw [hr, decLoop_eq_map _ _ (refsOf_sorted 0 subs), refsOf_erase 0 subs k _ h1]
    simp [h2]

/-- a successful send removes exactly that subscriber (and its guard, if it has one) -/
theorem iter_success (l : Loop) (subs : List (Nat × Bool)) (hwf : Wf l subs) (j : Nat) (hj : j < l.succ.length) :
    ∃ id c l', subs[j]? = some (id, c) ∧
      iter l (l.exitN + l.fail.length + j) = .continue_ l' ∧ Wf l' (subs.eraseIdx j) ∧
      l'.delivered = l.delivered ++ [id] ∧ l'.cancelled = l.cancelled ∧ l'.exitN = l.exitN := by
  obtain ⟨hs, hf, hr⟩ := hwf
  have hjl : j < subs.length := by simpa [hs, succOf] using hj
  cases hsub : subs[j] with
  | mk id c =>
  have h1 : subs[j]? = some (id, c) := by rw [List.getElem?_eq_getElem hjl, hsub]
  have hsucc : l.succ[j]? = some id := by rw [hs]; simp [succOf, h1]
  have hlt : ¬ (l.exitN + l.fail.length + j < l.exitN) := by omega
  have hfl : ¬ (l.exitN + l.fail.length + j - l.exitN < l.fail.length) := by omega
  have hidx : l.exitN + l.fail.length + j - l.exitN - l.fail.length = j := by omega
  cases c with
  | false =>
    have hnm := refsOf_not_mem 0 subs j id h1
    simp only [Nat.zero_add] at hnm
    have hidxOf : l.refs.idxOf? j = none := by
      rw [hr]; exact List.idxOf?_eq_none_iff.mpr hnm
    have hiter : iter l (l.exitN + l.fail.length + j) = .continue_ { l with
        succ := l.succ.eraseIdx j, refs := decLoop j l.refs, delivered := l.delivered ++ [id] } := by
      simp only [iter, hlt, if_false, hfl, hidx, hsucc, hidxOf]
    refine ⟨id, false, _, h1, hiter, ⟨?_, ?_, ?_⟩, rfl, rfl, rfl⟩
    · simp only; rw [hs, succOf_erase]
    · simp only; rw [hf, failOf_erase subs j _ h1]; simp
    · simp only
      rw [hr, decLoop_eq_map _ _ (refsOf_sorted 0 subs), refsOf_erase 0 subs j _ h1]
      simp
  | true =>
    obtain ⟨hra, hfa⟩ := refsOf_at 0 subs j id h1
    simp only [Nat.zero_add] at hra
    have hidxOf : l.refs.idxOf? j = some (cnt (subs.take j)) := by
      rw [hr]
      have hsorted := refsOf_sorted 0 subs
      have hlen : cnt (subs.take j) < (refsOf 0 subs).length := (List.getElem?_eq_some_iff.mp hra).1
      have hget : (refsOf 0 subs)[cnt (subs.take j)] = j := (List.getElem?_eq_some_iff.mp hra).2
      rw [List.idxOf?_eq_some_iff]
      refine ⟨hlen, hget, ?_⟩
      intro j' hj' heq
      have := (List.pairwise_iff_getElem.mp hsorted) j' (cnt (subs.take j)) (by omega) hlen hj'
      omega
    have hiter : iter l (l.exitN + l.fail.length + j) = .continue_ { l with
        succ := l.succ.eraseIdx j, fail := l.fail.eraseIdx (cnt (subs.take j)),
        refs := (decLoop j l.refs).eraseIdx (cnt (subs.take j)), delivered := l.delivered ++ [id] } := by
      simp only [iter, hlt, if_false, hfl, hidx, hsucc, hidxOf]
    refine ⟨id, true, _, h1, hiter, ⟨?_, ?_, ?_⟩, rfl, rfl, rfl⟩
    · simp only; rw [hs, succOf_erase]
    · simp only; rw [hf, failOf_erase subs j _ h1]; simp
    · simp only
      rw [hr, decLoop_eq_map _ _ (refsOf_sorted 0 subs), refsOf_erase 0 subs j _ h1]
      simp

/-- with a well-formed state no in-range select outcome makes the loop index out of bounds -/
theorem iter_never_bad (l : Loop) (subs : List (Nat × Bool)) (hwf : Wf l subs) (idx : Nat)
    (h : idx < l.exitN + l.fail.length + l.succ.length) : iter l idx ≠ .bad := by
  by_cases h1 : idx < l.exitN
  · rw [iter_exit l idx h1]; simp
  · by_cases h2 : idx - l.exitN < l.fail.length
    · obtain ⟨k, id, l', _, _, he, _⟩ := iter_failure l subs hwf (idx - l.exitN) h2
      have : l.exitN + (idx - l.exitN) = idx := by omega
      rw [this] at he; rw [he]; simp
    · obtain ⟨id, c, l', _, he, _⟩ := iter_success l subs hwf (idx - l.exitN - l.fail.length) (by omega)
      have : l.exitN + l.fail.length + (idx - l.exitN - l.fail.length) = idx := by omega
      rw [this] at he; rw [he]; simp

/-! ### whole publishes: any sequence of select outcomes -/

/-- run the loop on a list of select outcomes; stops at exit, when no send case is left, or when
    the outcomes run out -/
def runLoop : Loop → List Nat → Loop × Bool
  | l, [] => (l, false)
  | l, idx :: rest =>
    if l.succ = [] then (l, false)
    else match iter l idx with
      | .exit => (l, true)
      | .bad => (l, false)
      | .continue_ l' => runLoop l' rest

theorem perm_eraseIdx {α : Type} : ∀ (l : List α) (k : Nat) (a : α), l[k]? = some a → l.Perm (a :: l.eraseIdx k)
  | [], k, a, h => by simp at h
  | x :: xs, 0, a, h => by simp at h; subst h; simp
  | x :: xs, k + 1, a, h => by
    simp at h
    have := perm_eraseIdx xs k a h
    simp only [List.eraseIdx_cons_succ]
    exact (List.Perm.cons x this).trans (List.Perm.swap a x _)

theorem iter_out_of_range (l : Loop) (idx : Nat) (h : l.exitN + l.fail.length + l.succ.length ≤ idx) :
    iter l idx = .bad := by
  have h1 : ¬ idx < l.exitN := by omega
  have h2 : ¬ idx - l.exitN < l.fail.length := by omega
  have h3 : l.succ[idx - l.exitN - l.fail.length]? = none := List.getElem?_eq_none (by omega)
  simp [iter, h1, h2, h3]

/-- Every subscriber that was eligible at the start is, at any point of the publish, in exactly one
    of three places: already delivered, already dropped because its own context fired, or still
    pending — as a multiset (so nobody is delivered twice and nobody is invented), for every sequence
    of select outcomes. -/
theorem accounting (subs : List (Nat × Bool)) (choices : List Nat) :
    ∀ (l : Loop) (cur : List (Nat × Bool)), Wf l cur →
      (l.delivered ++ l.cancelled ++ succOf cur).Perm (succOf subs) →
      ∃ cur', Wf (runLoop l choices).1 cur' ∧
        ((runLoop l choices).1.delivered ++ (runLoop l choices).1.cancelled ++ succOf cur').Perm (succOf subs) := by
  induction choices with
  | nil => intro l cur hwf hp; exact ⟨cur, hwf, hp⟩
  | cons idx rest ih =>
    intro l cur hwf hp
    simp only [runLoop]
    split
    · exact ⟨cur, hwf, hp⟩
    · by_cases h1 : idx < l.exitN
      · rw [iter_exit l idx h1]; exact ⟨cur, hwf, hp⟩
      · by_cases h2 : idx - l.exitN < l.fail.length
        · obtain ⟨k, id, l', hk, _, he, hwf', hc, hd, _⟩ := iter_failure l cur hwf (idx - l.exitN) h2
          have : l.exitN + (idx - l.exitN) = idx := by omega
          rw [this] at he; rw [he]
          apply ih l' (cur.eraseIdx k) hwf'
          rw [hc, hd]
          have hperm := perm_eraseIdx (succOf cur) k id (by simp [succOf, hk])
          rw [← succOf_erase] at hperm
          refine List.Perm.trans ?_ hp
          simp only [List.append_assoc, List.singleton_append]
          exact (List.Perm.append_left _ (List.Perm.append_left _ hperm.symm))
        · by_cases h3 : idx - l.exitN - l.fail.length < l.succ.length
          · obtain ⟨id, c, l', hk, he, hwf', hd, hc, _⟩ := iter_success l cur hwf (idx - l.exitN - l.fail.length) h3
            have : l.exitN + l.fail.length + (idx - l.exitN - l.fail.length) = idx := by omega
            rw [this] at he; rw [he]
            apply ih l' (cur.eraseIdx _) hwf'
            rw [hc, hd]
            have hperm := perm_eraseIdx (succOf cur) (idx - l.exitN - l.fail.length) id (by simp [succOf, hk])
            rw [← succOf_erase] at hperm
            refine List.Perm.trans ?_ hp
            simp only [List.append_assoc]
            refine List.Perm.append_left _ ?_
            refine List.Perm.trans ?_ (List.Perm.append_left _ hperm.symm)
            simp only [List.singleton_append]
            exact (List.perm_middle).symm
          · rw [iter_out_of_range l idx (by omega)]; exact ⟨cur, hwf, hp⟩

/-- Hence, for a publish over eligible subscribers with pairwise distinct ids: nobody receives the
    value twice, nobody outside the eligible set receives it, no subscriber is both delivered and
    dropped, and when the loop ends because no send case is left, every eligible subscriber was
    either delivered or had its own context fire. -/
theorem publish_exactly_once (subs : List (Nat × Bool)) (e : Nat) (choices : List Nat) (hnd : (succOf subs).Nodup) :
    let r := (runLoop (build e subs) choices).1
    (r.delivered ++ r.cancelled).Nodup ∧
    (∀ id ∈ r.delivered ++ r.cancelled, id ∈ succOf subs) ∧
    (r.succ = [] → ∀ id ∈ succOf subs, id ∈ r.delivered ++ r.cancelled) := by
  intro r
  obtain ⟨cur', hwf, hp⟩ := accounting subs choices (build e subs) subs (build_wf e subs) (by simp [build])
  have hnd' : (r.delivered ++ r.cancelled ++ succOf cur').Nodup := hp.nodup_iff.mpr hnd
  refine ⟨(List.nodup_append.mp hnd').1, ?_, ?_⟩
  · intro id hid
    exact hp.subset (List.mem_append_left _ hid)
  · intro hempty id hid
    have hcur : succOf cur' = [] := by rw [← hwf.1]; exact hempty
    have := hp.symm.subset hid
    rw [hcur, List.append_nil] at this
    exact this

/-! non-vacuity: three subscribers, the middle one guarded; its context fires first, then the last
    and the first receive -/
example : (runLoop (build 1 [(10, false), (11, true), (12, true)]) [1, 3, 1]).1.delivered = [12, 10] ∧
    (runLoop (build 1 [(10, false), (11, true), (12, true)]) [1, 3, 1]).1.cancelled = [11] ∧
    (runLoop (build 1 [(10, false), (11, true), (12, true)]) [1, 3, 1]).1.succ = [] := by decide

/-! ### The registry clauses: who is eligible for a publish, and what the rejected calls leave behind

  `subscribe` / `unsubscribe` return `none` where the code panics; the state is then, by construction, the one before the call
  (the harness compares it through `VerifNotifierSize` and the deliveries of the next publish: `dupsub`, unmatched `unsub`). -/

/-- a publish under `key` with value class `accepts` is delivered only to subscriptions of that key, whose element type accepts the
    value, and whose context (if any) is not cancelled — nothing goes to other keys or incompatible element types -/
theorem eligible_only_matching (s : St) (key : Nat) (accepts : Nat → Bool) (y : Sub) (h : y ∈ eligible s key accepts) :
    y ∈ s.subs ∧ y.key = key ∧ accepts y.elem = true ∧ ¬(y.hasCtx = true ∧ y.ctxCancelled = true) := by
  simp only [eligible, List.mem_filter, Bool.and_eq_true, beq_iff_eq, Bool.not_eq_true'] at h
  refine ⟨h.1, h.2.1.1, h.2.2, ?_⟩
  intro hc
  have := h.2.1.2
  simp [hc.1, hc.2] at this

/-- … and every such subscription IS eligible -/
theorem matching_is_eligible (s : St) (key : Nat) (accepts : Nat → Bool) (y : Sub) (hy : y ∈ s.subs) (hk : y.key = key)
    (ha : accepts y.elem = true) (hc : ¬(y.hasCtx = true ∧ y.ctxCancelled = true)) : y ∈ eligible s key accepts := by
  simp only [eligible, List.mem_filter, Bool.and_eq_true, beq_iff_eq, Bool.not_eq_true']
  refine ⟨hy, ⟨hk, ?_⟩, ha⟩
  cases h1 : y.hasCtx <;> cases h2 : y.ctxCancelled <;> simp_all

/-- a duplicate Subscribe (same key, same target) is rejected exactly when such a subscription exists -/
theorem duplicate_subscribe_rejected (s : St) (x : Sub) :
    subscribe s x = none ↔ ∃ y ∈ s.subs, y.key = x.key ∧ y.id = x.id := by
  unfold subscribe
  split
  · rename_i h
    simp only [List.any_eq_true, Bool.and_eq_true, beq_iff_eq] at h
    exact ⟨fun _ => h, fun _ => rfl⟩
  · rename_i h
    simp only [List.any_eq_true, Bool.and_eq_true, beq_iff_eq] at h
    exact ⟨(fun hn => by cases hn), fun hex => absurd hex h⟩

/-- an accepted Subscribe adds exactly that subscription and keeps every other one (with its own context state) -/
theorem subscribe_adds_only_that (s s' : St) (x : Sub) (h : subscribe s x = some s') : s'.subs = s.subs ++ [x] := by
  unfold subscribe at h
  split at h
  · cases h
  · cases h; rfl

/-- an unmatched Unsubscribe is rejected exactly when no such subscription exists -/
theorem unmatched_unsubscribe_rejected (s : St) (key id : Nat) :
    unsubscribe s key id = none ↔ ¬∃ y ∈ s.subs, y.key = key ∧ y.id = id := by
  unfold unsubscribe
  split
  · rename_i h
    simp only [List.any_eq_true, Bool.and_eq_true, beq_iff_eq] at h
    exact ⟨(fun hn => by cases hn), fun hne => absurd h hne⟩
  · rename_i h
    simp only [List.any_eq_true, Bool.and_eq_true, beq_iff_eq] at h
    exact ⟨fun _ => h, fun _ => rfl⟩

/-- AFTER UNSUBSCRIBE RETURNS THE TARGET RECEIVES NOTHING FROM LATER PUBLISHES: it is eligible for no publish of that key, whatever
    the value; every other subscription is exactly as eligible as before -/
theorem unsubscribed_is_never_eligible (s s' : St) (key id : Nat) (h : unsubscribe s key id = some s') (accepts : Nat → Bool) :
    (∀ y ∈ eligible s' key accepts, y.id ≠ id) ∧
    (∀ k y, ¬(y.key = key ∧ y.id = id) → (y ∈ eligible s' k accepts ↔ y ∈ eligible s k accepts)) := by
  unfold unsubscribe at h
  split at h
  · cases h
    constructor
    · intro y hy
      simp only [eligible, List.mem_filter, Bool.and_eq_true, beq_iff_eq, Bool.not_eq_true', Bool.and_eq_false_imp] at hy
      intro hid
      have := hy.1.2
      simp [hy.2.1.1, hid] at this
    · intro k y hne
      simp only [eligible, List.mem_filter, Bool.and_eq_true, beq_iff_eq, Bool.not_eq_true']
      constructor
      · rintro ⟨⟨hm, _⟩, rest⟩
        exact ⟨hm, rest⟩
      · rintro ⟨hm, rest⟩
        refine ⟨⟨hm, ?_⟩, rest⟩
        cases hk : (y.key == key) <;> cases hi : (y.id == id) <;> simp_all
  · cases h

/-- non-vacuity: two subscriptions under key 1 (one with a cancelled context), one under key 2; a duplicate is rejected, the
    cancelled one and the other key's are not eligible; after Unsubscribe nobody is -/
example :
    let s : St := { subs := [⟨1, 10, 0, false, false⟩, ⟨1, 11, 0, true, true⟩, ⟨2, 12, 0, false, false⟩] }
    subscribe s ⟨1, 10, 0, true, false⟩ = none ∧ (eligible s 1 (fun _ => true)).map (·.id) = [10] ∧
    ((unsubscribe s 1 10).map fun s' => (eligible s' 1 (fun _ => true)).map (·.id)) = some [] ∧
    unsubscribe s 2 10 = none := by decide

end BB.Props.C15
