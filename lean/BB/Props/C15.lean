/-
  C15 — Notifier: a publish reaches each eligible subscription exactly once, no one else.
  The publish loop (`failureCases` / `failureRefs` / `successCases` and the index re-basing) is
  modelled faithfully (`BB.Notifier.iter`); the theorems hold for every set of eligible
  subscriptions in every (map-iteration) order and for every sequence of `reflect.Select` outcomes.
-/
import BB.Proofs.Notifier

namespace BB.Props.C15
open BB.Notifier

/-- the three slices are exactly what the construction loop builds from the eligible subscribers
    still to be served, `subs` (pairs `(id, hasContext)` in map-iteration order) -/
def Wf (l : Loop) (subs : List (Nat × Bool)) : Prop :=
  l.succ = succOf subs ∧ l.fail = failOf subs ∧ l.refs = refsOf 0 subs

theorem build_wf (e : Nat) (subs : List (Nat × Bool)) : Wf (build e subs) subs := by
  simp [Wf, build, buildFrom_eq]

/-- the exit case (publish context cancelled) ends the publish -/
theorem iter_exit (l : Loop) (idx : Nat) (h : idx < l.exitN) : iter l idx = .exit := by
  simp [iter, h]

/-- a subscriber's context firing removes exactly that subscriber — its send case, its failure case
    and its ref — and re-bases the remaining refs so that they still point at their own send cases -/
theorem iter_failure (l : Loop) (subs : List (Nat × Bool)) (hwf : Wf l subs) (i : Nat) (hi : i < l.fail.length) :
    ∃ k id l', subs[k]? = some (id, true) ∧ l.fail[i]? = some id ∧
      iter l (l.exitN + i) = .continue_ l' ∧ Wf l' (subs.eraseIdx k) ∧
      l'.cancelled = l.cancelled ++ [id] ∧ l'.delivered = l.delivered ∧ l'.exitN = l.exitN := by
  obtain ⟨hs, hf, hr⟩ := hwf
  rw [hf] at hi
  obtain ⟨k, id, h1, h2, h3, h4⟩ := refsOf_inv 0 subs i hi
  simp only [Nat.zero_add] at h3
  have hsucc : l.succ[k]? = some id := by rw [hs]; simp [succOf, h1]
  have hiter : iter l (l.exitN + i) = .continue_ { l with
      succ := l.succ.eraseIdx k, fail := l.fail.eraseIdx i, refs := (decLoop k l.refs).eraseIdx i,
      cancelled := l.cancelled ++ [id] } := by
    have hlt : ¬ (l.exitN + i < l.exitN) := by omega
    have hfl : l.exitN + i - l.exitN < l.fail.length := by rw [hf]; omega
    simp only [iter, hlt, if_false, hfl, if_true]
    have : l.exitN + i - l.exitN = i := by omega
    rw [this, hr, h3]
    simp only [hsucc]
  refine ⟨k, id, _, h1, by rw [hf]; exact h4, hiter, ⟨?_, ?_, ?_⟩, rfl, rfl, rfl⟩
  · simp only; rw [hs, succOf_erase]
  · simp only; rw [hf, failOf_erase subs k _ h1]; simp [h2]
  · simp only
    rw [hr, decLoop_eq_map _ _ (refsOf_sorted 0 subs), refsOf_erase 0 subs k _ h1]
    simp [h2]

/-- a successful send removes exactly that subscriber (and its guard, if it has one) -/
theorem iter_success (l : Loop) (subs : List (Nat × Bool)) (hwf : Wf l subs) (j : Nat) (hj : j < l.succ.length) :
    ∃ id c l', subs[j]? = some (id, c) ∧
      iter l (l.exitN + l.fail.length + j) = .continue_ l' ∧ Wf l' (subs.eraseIdx j) ∧
      l'.delivered = l.delivered ++ [id] ∧ l'.cancelled = l.cancelled ∧ l'.exitN = l.exitN := by
  obtain ⟨hs, hf, hr⟩ := hwf
  have hjl : j < subs.length := by simpa [hs, succOf] using hj
  cases hsub : subs[j] with
  | mk id c =>
  have h1 : subs[j]? = some (id, c) := by rw [List.getElem?_eq_getElem hjl, hsub]
  have hsucc : l.succ[j]? = some id := by rw [hs]; simp [succOf, h1]
  have hlt : ¬ (l.exitN + l.fail.length + j < l.exitN) := by omega
  have hfl : ¬ (l.exitN + l.fail.length + j - l.exitN < l.fail.length) := by omega
  have hidx : l.exitN + l.fail.length + j - l.exitN - l.fail.length = j := by omega
  cases c with
  | false =>
    have hnm := refsOf_not_mem 0 subs j id h1
    simp only [Nat.zero_add] at hnm
    have hidxOf : l.refs.idxOf? j = none := by
      rw [hr]; exact List.idxOf?_eq_none_iff.mpr hnm
    have hiter : iter l (l.exitN + l.fail.length + j) = .continue_ { l with
        succ := l.succ.eraseIdx j, refs := decLoop j l.refs, delivered := l.delivered ++ [id] } := by
      simp only [iter, hlt, if_false, hfl, hidx, hsucc, hidxOf]
    refine ⟨id, false, _, h1, hiter, ⟨?_, ?_, ?_⟩, rfl, rfl, rfl⟩
    · simp only; rw [hs, succOf_erase]
    · simp only; rw [hf, failOf_erase subs j _ h1]; simp
    · simp only
      rw [hr, decLoop_eq_map _ _ (refsOf_sorted 0 subs), refsOf_erase 0 subs j _ h1]
      simp
  | true =>
    obtain ⟨hra, hfa⟩ := refsOf_at 0 subs j id h1
    simp only [Nat.zero_add] at hra
    have hidxOf : l.refs.idxOf? j = some (cnt (subs.take j)) := by
      rw [hr]
      have hsorted := refsOf_sorted 0 subs
      have hlen : cnt (subs.take j) < (refsOf 0 subs).length := (List.getElem?_eq_some_iff.mp hra).1
      have hget : (refsOf 0 subs)[cnt (subs.take j)] = j := (List.getElem?_eq_some_iff.mp hra).2
      rw [List.idxOf?_eq_some_iff]
      refine ⟨hlen, hget, ?_⟩
      intro j' hj' heq
      have := (List.pairwise_iff_getElem.mp hsorted) j' (cnt (subs.take j)) (by omega) hlen hj'
      omega
    have hiter : iter l (l.exitN + l.fail.length + j) = .continue_ { l with
        succ := l.succ.eraseIdx j, fail := l.fail.eraseIdx (cnt (subs.take j)),
        refs := (decLoop j l.refs).eraseIdx (cnt (subs.take j)), delivered := l.delivered ++ [id] } := by
      simp only [iter, hlt, if_false, hfl, hidx, hsucc, hidxOf]
    refine ⟨id, true, _, h1, hiter, ⟨?_, ?_, ?_⟩, rfl, rfl, rfl⟩
    · simp only; rw [hs, succOf_erase]
    · simp only; rw [hf, failOf_erase subs j _ h1]; simp
    · simp only
      rw [hr, decLoop_eq_map _ _ (refsOf_sorted 0 subs), refsOf_erase 0 subs j _ h1]
      simp

/-- with a well-formed state no in-range select outcome makes the loop index out of bounds -/
theorem iter_never_bad (l : Loop) (subs : List (Nat × Bool)) (hwf : Wf l subs) (idx : Nat)
    (h : idx < l.exitN + l.fail.length + l.succ.length) : iter l idx ≠ .bad := by
  by_cases h1 : idx < l.exitN
  · rw [iter_exit l idx h1]; simp
  · by_cases h2 : idx - l.exitN < l.fail.length
    · obtain ⟨k, id, l', _, _, he, _⟩ := iter_failure l subs hwf (idx - l.exitN) h2
      have : l.exitN + (idx - l.exitN) = idx := by omega
      rw [this] at he; rw [he]; simp
    · obtain ⟨id, c, l', _, he, _⟩ := iter_success l subs hwf (idx - l.exitN - l.fail.length) (by omega)
      have : l.exitN + l.fail.length + (idx - l.exitN - l.fail.length) = idx := by omega
      rw [this] at he; rw [he]; simp

/-! ### whole publishes: any sequence of select outcomes -/

/-- run the loop on a list of select outcomes; stops at exit, when no send case is left, or when
    the outcomes run out -/
def runLoop : Loop → List Nat → Loop × Bool
  | l, [] => (l, false)
  | l, idx :: rest =>
    if l.succ = [] then (l, false)
    else match iter l idx with
      | .exit => (l, true)
      | .bad => (l, false)
      | .continue_ l' => runLoop l' rest

theorem perm_eraseIdx {α : Type} : ∀ (l : List α) (k : Nat) (a : α), l[k]? = some a → l.Perm (a :: l.eraseIdx k)
  | [], k, a, h => by simp at h
  | x :: xs, 0, a, h => by simp at h; subst h; simp
  | x :: xs, k + 1, a, h => by
    simp at h
    have := perm_eraseIdx xs k a h
    simp only [List.eraseIdx_cons_succ]
    exact (List.Perm.cons x this).trans (List.Perm.swap a x _)

theorem iter_out_of_range (l : Loop) (idx : Nat) (h : l.exitN + l.fail.length + l.succ.length ≤ idx) :
    iter l idx = .bad := by
  have h1 : ¬ idx < l.exitN := by omega
  have h2 : ¬ idx - l.exitN < l.fail.length := by omega
  have h3 : l.succ[idx - l.exitN - l.fail.length]? = none := List.getElem?_eq_none (by omega)
  simp [iter, h1, h2, h3]

/-- Every subscriber that was eligible at the start is, at any point of the publish, in exactly one
    of three places: already delivered, already dropped because its own context fired, or still
    pending — as a multiset (so nobody is delivered twice and nobody is invented), for every sequence
    of select outcomes. -/
theorem accounting (subs : List (Nat × Bool)) (choices : List Nat) :
    ∀ (l : Loop) (cur : List (Nat × Bool)), Wf l cur →
      (l.delivered ++ l.cancelled ++ succOf cur).Perm (succOf subs) →
      ∃ cur', Wf (runLoop l choices).1 cur' ∧
        ((runLoop l choices).1.delivered ++ (runLoop l choices).1.cancelled ++ succOf cur').Perm (succOf subs) := by
  induction choices with
  | nil => intro l cur hwf hp; exact ⟨cur, hwf, hp⟩
  | cons idx rest ih =>
    intro l cur hwf hp
    simp only [runLoop]
    split
    · exact ⟨cur, hwf, hp⟩
    · by_cases h1 : idx < l.exitN
      · rw [iter_exit l idx h1]; exact ⟨cur, hwf, hp⟩
      · by_cases h2 : idx - l.exitN < l.fail.length
        · obtain ⟨k, id, l', hk, _, he, hwf', hc, hd, _⟩ := iter_failure l cur hwf (idx - l.exitN) h2
          have : l.exitN + (idx - l.exitN) = idx := by omega
          rw [this] at he; rw [he]
          apply ih l' (cur.eraseIdx k) hwf'
          rw [hc, hd]
          have hperm := perm_eraseIdx (succOf cur) k id (by simp [succOf, hk])
          rw [← succOf_erase] at hperm
          refine List.Perm.trans ?_ hp
          simp only [List.append_assoc, List.singleton_append]
          exact (List.Perm.append_left _ (List.Perm.append_left _ hperm.symm))
        · by_cases h3 : idx - l.exitN - l.fail.length < l.succ.length
          · obtain ⟨id, c, l', hk, he, hwf', hd, hc, _⟩ := iter_success l cur hwf (idx - l.exitN - l.fail.length) h3
            have : l.exitN + l.fail.length + (idx - l.exitN - l.fail.length) = idx := by omega
            rw [this] at he; rw [he]
            apply ih l' (cur.eraseIdx _) hwf'
            rw [hc, hd]
            have hperm := perm_eraseIdx (succOf cur) (idx - l.exitN - l.fail.length) id (by simp [succOf, hk])
            rw [← succOf_erase] at hperm
            refine List.Perm.trans ?_ hp
            simp only [List.append_assoc]
            refine List.Perm.append_left _ ?_
            refine List.Perm.trans ?_ (List.Perm.append_left _ hperm.symm)
            simp only [List.singleton_append]
            exact (List.perm_middle).symm
          · rw [iter_out_of_range l idx (by omega)]; exact ⟨cur, hwf, hp⟩

/-- Hence, for a publish over eligible subscribers with pairwise distinct ids: nobody receives the
    value twice, nobody outside the eligible set receives it, no subscriber is both delivered and
    dropped, and when the loop ends because no send case is left, every eligible subscriber was
    either delivered or had its own context fire. -/
theorem publish_exactly_once (subs : List (Nat × Bool)) (e : Nat) (choices : List Nat) (hnd : (succOf subs).Nodup) :
    let r := (runLoop (build e subs) choices).1
    (r.delivered ++ r.cancelled).Nodup ∧
    (∀ id ∈ r.delivered ++ r.cancelled, id ∈ succOf subs) ∧
    (r.succ = [] → ∀ id ∈ succOf subs, id ∈ r.delivered ++ r.cancelled) := by
  intro r
  obtain ⟨cur', hwf, hp⟩ := accounting subs choices (build e subs) subs (build_wf e subs) (by simp [build])
  have hnd' : (r.delivered ++ r.cancelled ++ succOf cur').Nodup := hp.nodup_iff.mpr hnd
  refine ⟨(List.nodup_append.mp hnd').1, ?_, ?_⟩
  · intro id hid
    exact hp.subset (List.mem_append_left _ hid)
  · intro hempty id hid
    have hcur : succOf cur' = [] := by rw [← hwf.1]; exact hempty
    have := hp.symm.subset hid
    rw [hcur, List.append_nil] at this
    exact this

/-! non-vacuity: three subscribers, the middle one guarded; its context fires first, then the last
    and the first receive -/
example : (runLoop (build 1 [(10, false), (11, true), (12, true)]) [1, 3, 1]).1.delivered = [12, 10] ∧
    (runLoop (build 1 [(10, false), (11, true), (12, true)]) [1, 3, 1]).1.cancelled = [11] ∧
    (runLoop (build 1 [(10, false), (11, true), (12, true)]) [1, 3, 1]).1.succ = [] := by decide

end BB.Props.C15
