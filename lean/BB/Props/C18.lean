/-
  C18 — ExponentialRetry: stops on success, fatal error or cancellation; bounded backoff.
  For every script of outcomes, every cancellation point, every counter value and rate.
-/
import BB.Model.Retry

namespace BB.Props.C18
open BB.Retry

/-- the unwrapped error carries no fatal wrapper at any depth -/
theorem unpack_not_fatal (e : Er) : isFatal (unpack e) = false := by
  induction e with
  | base i => rfl
  | fatal e ih => simpa [unpack] using ih

theorem unpack_wrap (n i : Nat) : unpack (wrap n (.base i)) = .base i := by
  induction n with
  | zero => rfl
  | succ n ih => simpa [wrap, unpack] using ih

/-- once the context is observed cancelled no further call is started; the result is nil with the
    context's error -/
theorem cancelled_no_call (items : List Item) (wc : Option Nat) (c calls : Nat) (cs : List Nat) :
    retry items true wc c calls cs = { result := none, err := .ctx, calls := calls, cs := cs } := by
  cases items <;> simp [retry]

/-- a success ends the loop with that call's result and a nil error (even if the context was
    cancelled while the call was running) -/
theorem success_returns (it : Item) (rest : List Item) (h : it.err = none) (wc : Option Nat) (c calls : Nat) (cs : List Nat) :
    retry (it :: rest) false wc c calls cs = { result := it.result, err := .nil, calls := calls + 1, cs := cs } := by
  simp [retry, h]

/-- a fatal error ends the loop with that call's result and the fully unwrapped error -/
theorem fatal_returns_unwrapped (it : Item) (rest : List Item) (e : Er) (h : it.err = some e) (hf : isFatal e = true)
    (wc : Option Nat) (c calls : Nat) (cs : List Nat) :
    retry (it :: rest) false wc c calls cs =
      { result := it.result, err := .er (unpack e), calls := calls + 1, cs := cs } ∧ isFatal (unpack e) = false := by
  exact ⟨by simp [retry, h, hf], unpack_not_fatal e⟩

def plain (it : Item) : Prop := (∃ e, it.err = some e ∧ isFatal e = false) ∧ it.cancelDuring = false

def bump (c : Nat) : Nat := if c < maxShift then c + 1 else c

/-- counters passed to the delay calculation over `n` consecutive plain failures starting from `c` -/
def counters : Nat → Nat → List Nat
  | _, 0 => []
  | c, n + 1 => bump c :: counters (bump c) n

def bumpN : Nat → Nat → Nat
  | c, 0 => c
  | c, n + 1 => bumpN (bump c) n

/-- plain failures without cancellation are retried: the loop continues after them with the
    counter advanced (saturating) and one delay computed per failure -/
theorem plain_prefix_retried (fails tail : List Item) (hp : ∀ it ∈ fails, plain it) (c calls : Nat) (cs : List Nat) :
    retry (fails ++ tail) false none c calls cs =
    retry tail false none (bumpN c fails.length) (calls + fails.length) (cs ++ counters c fails.length) := by
  induction fails generalizing c calls cs with
  | nil => simp [bumpN, counters]
  | cons it fails ih =>
    obtain ⟨⟨e, he, hf⟩, hc⟩ := hp it (by simp)
    have := ih (fun x hx => hp x (by simp [hx])) (bump c) (calls + 1) (cs ++ [bump c])
    simp only [List.cons_append, retry, he, hf, hc, List.length_cons, bumpN, counters]
    simp only [bump] at this ⊢
    rw [this]
    simp [Nat.add_assoc, Nat.add_comm 1]

/-- stops at the first success: earlier plain failures are retried, later items are never called -/
theorem stops_at_first_success (fails rest : List Item) (it : Item) (hp : ∀ x ∈ fails, plain x) (h : it.err = none) :
    (retry (fails ++ it :: rest) false none 0 0 []).result = it.result ∧
    (retry (fails ++ it :: rest) false none 0 0 []).err = .nil ∧
    (retry (fails ++ it :: rest) false none 0 0 []).calls = fails.length + 1 := by
  rw [plain_prefix_retried fails (it :: rest) hp, success_returns it rest h]
  simp

/-- the retry counter saturates at 31: after `n` failures it is `min n 31` -/
theorem bumpN_zero (n : Nat) : bumpN 0 n = min n maxShift := by
  suffices ∀ c, c ≤ maxShift → bumpN c n = min (c + n) maxShift from by simpa using this 0 (by decide)
  induction n with
  | zero => intro c hc; simp [bumpN]; omega
  | succ n ih =>
    intro c hc
    simp only [bumpN, bump]
    split
    · rw [ih (c + 1) (by simp [maxShift] at *; omega)]; congr 1; omega
    · have : c = maxShift := by simp [maxShift] at *; omega
      rw [ih c hc]; subst this; simp [maxShift]

/-- every counter handed to the delay calculation is `min k 31` for the k-th retry -/
theorem counters_zero (n : Nat) : counters 0 n = (List.range n).map (fun k => min (k + 1) maxShift) := by
  suffices ∀ c m, c = min m maxShift → counters c n = (List.range n).map (fun k => min (m + k + 1) maxShift) from by
    simpa using this 0 0 (by simp)
  induction n with
  | zero => intro c m _; simp [counters]
  | succ n ih =>
    intro c m hc
    have hb : bump c = min (m + 1) maxShift := by
      simp only [bump, maxShift] at *
      by_cases h : c < 31 <;> simp [h] <;> omega
    simp only [counters, List.range_succ_eq_map, List.map_cons, List.map_map]
    rw [ih (bump c) (m + 1) hb]
    simp only [hb, Nat.add_zero, List.cons.injEq, true_and]
    apply List.map_congr_left
    intro k _
    simp only [Function.comp]
    congr 1; omega

/-- the delay before a retry with counter `c` is a whole number of slots in `[0, 2^min(c,31) - 1]`
    times the rate, for every admissible random draw -/
theorem delay_range (rate : Int) (hr : 0 < rate) (c x : Nat) (hx : x < slots c) :
    calcDelay rate c x = (x : Int) * rate ∧ validDelay rate c (calcDelay rate c x) = true := by
  refine ⟨rfl, ?_⟩
  have h1 : ((x : Int) * rate) % rate = 0 := Int.mul_emod_left _ _
  have h2 : ((x : Int) * rate) / rate = x := Int.mul_ediv_cancel _ (by omega)
  simp only [validDelay, calcDelay, h1, h2, Bool.and_eq_true, decide_eq_true_eq]
  refine ⟨⟨⟨hr, by simp⟩, by omega⟩, by exact_mod_cast hx⟩

/-! non-vacuity -/
example : (retry [⟨none, some (.base 1), false⟩, ⟨none, some (.base 2), false⟩, ⟨some 7, some (.fatal (.fatal (.base 3))), false⟩,
    ⟨some 9, none, false⟩] false none 0 0 []).err = .er (.base 3) := by decide

example : (retry [⟨none, some (.base 1), true⟩, ⟨some 9, none, false⟩] false none 0 0 []).calls = 1 := by decide

end BB.Props.C18
