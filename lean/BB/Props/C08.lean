/-
  C08 — ChanCaster: Send reaches exactly the registered receivers, once, and counts them.

  Two layers.  (1) The packed state word and its arithmetic, for every count and every delta in the int range
  (`BB.Model.CasterWord`, lemmas in `BB.Proofs.CasterWord`): which Adds panic, what word they leave.  (2) The
  protocol at the granularity of the atomic operations, for unbounded populations of senders and receivers that
  follow Add's contract, over an unbuffered channel (`BB.Model.Caster`, invariant in `BB.Proofs.Caster`).
  The last clause of the property ("every later call panics too") is FALSE of the code: see `panic_not_sticky`
  (known finding F6) and the part that does hold, `panic_sticky_partial`.
-/
import BB.Proofs.Caster
import BB.Proofs.CasterLive

namespace BB.Props.C08
open BB.LTS BB.Caster BB.Fun

/-! ### the protocol -/

/-- receivers that follow the contract never make any call panic -/
theorem contract_never_panics (s : St) (hr : Reach sys s) : s.panicked = false := (cinv_reach s hr).np

/-- Sends are serialised: at most one sender is between Lock and Unlock -/
theorem one_send_at_a_time (s : St) (hr : Reach sys s) (a b : Nat)
    (ha : inW (s.senders a).pc = true) (hb : inW (s.senders b).pc = true) : a = b := (cinv_reach s hr).singleW a b ha hb

/-- the CAS that arms a Send counts exactly the registrations outstanding at that instant: a deregistration that
    landed before it (even after the load: then the CAS fails and the loop re-reads) is not counted -/
theorem arm_counts_current_registrations (s s' : St) (hr : Reach sys s) (a : Nat) (hs : sys.step s (.scas a) = some s')
    (harmed : (s'.senders a).pc = .sending) : (s'.senders a).n = s.T ∧ s'.word = armedWord s.T ∧ s.word = idleWord s.T := by
  have h := cinv_reach s hr
  simp only [sys, step] at hs
  split at hs
  · rename_i ga
    have haW : inW (s.senders a).pc = true := by simp [ga, inW]
    have nobody : ∀ b, (s.senders b).pc ≠ .sending := by
      intro b hb
      by_cases e : b = a
      · subst e; rw [ga] at hb; cases hb
      · have := only_writer h haW e; rw [sending_inW hb] at this; cases this
    obtain ⟨hword, _⟩ := h.idle nobody
    split at hs
    · rename_i heq
      have hsnap := h.snapNZ a ga
      have hpos : 0 < s.T := by
        cases Nat.eq_zero_or_pos s.T with
        | inl e => rw [← heq, hword, e, idleWord_zero] at hsnap; exact absurd rfl hsnap
        | inr e => exact e
      have harm : arm (s.senders a).snap = .armed (armedWord s.T) s.T := by rw [← heq, hword, arm_idle s.T hpos h.tb]
      rw [harm] at hs
      cases hs
      simp [hword]
    · cases hs; simp at harmed
  · cases hs

/-- while a Send is armed, its sends never exceed the count it armed with -/
theorem sends_bounded (s : St) (hr : Reach sys s) (a : Nat) (ha : (s.senders a).pc = .sending) :
    (s.senders a).k ≤ (s.senders a).n := by
  have := ((cinv_reach s hr).armed a ha).2.2.1; omega

/-- when the last send is done the final validation succeeds; the value returned is the number of values received
    by registered receivers, which together with the registrations removed during the Send is the number it armed
    with; nobody is registered any more and the word is 0 -/
theorem send_counts (s : St) (hr : Reach sys s) (a : Nat) (ha : (s.senders a).pc = .sending)
    (hk : (s.senders a).k = (s.senders a).n) :
    ∃ s', sys.step s (.scheck a) = some s' ∧ (s'.senders a).ret = some s.delivered ∧
      s.delivered + s.removedDuring = (s.senders a).n ∧ s.T = 0 ∧ s.P = 0 ∧ s'.word = 0 ∧ s'.panicked = false := by
  have h := cinv_reach s hr
  obtain ⟨hword, h1, h2, h3⟩ := h.armed a ha
  have hT : s.T = 0 := by omega
  have hP : s.P = 0 := by omega
  have hfin : finish s.word (s.senders a).n = some s.delivered := by
    rw [hword, hT, Nat.zero_add]; exact finish_armed s.delivered (s.senders a).n (by omega) (by omega)
  refine ⟨{ s with word := 0, senders := upd s.senders a { s.senders a with pc := .unlocking, ret := some s.delivered } },
    by simp only [sys, step, ha, hk, h.np, and_self, ↓reduceIte, hfin], ?_, by omega, hT, hP, rfl, h.np⟩
  simp

/-- a registration requested during a Send takes effect only for a later Send: while a sender holds the lock no
    positive Add gets the read lock or performs its atomic add -/
theorem no_registration_during_send (s : St) (hr : Reach sys s) (hw : s.wlock = true) (r d : Nat) :
    sys.step s (.rlock r d) = none ∧ sys.step s (.radd r) = none := by
  have h := cinv_reach s hr
  constructor
  · simp [sys, step, hw]
  · have := (h.noRd hw r).1
    simp [sys, step, this]

/-- a racing deregistration: with a Send armed it absorbs exactly `d` values (no more, no fewer); otherwise it just
    leaves and absorbs nothing -/
theorem racing_deregistration (s s' : St) (hr : Reach sys s) (r d : Nat) (hs : sys.step s (.neg r d) = some s') :
    s'.panicked = false ∧ (s'.recvs r).regs = (s.recvs r).regs - d ∧
    ((∃ a, (s.senders a).pc = .sending) → (s'.recvs r).pc = .absorbing ∧ (s'.recvs r).k = d) ∧
    ((∀ a, (s.senders a).pc ≠ .sending) → (s'.recvs r).pc = .out ∧ (s'.recvs r).k = 0) := by
  have h := cinv_reach s hr
  have h' := cinv_step h hs
  refine ⟨h'.np, ?_, ?_, ?_⟩
  all_goals
    simp only [sys, step] at hs
    split at hs
    case isFalse => cases hs
    rename_i g
    obtain ⟨gpc, gd, gdr, gp⟩ := g
    have hr' : r < s.nRecv := lt_nRecv h r (by intro e; rw [e] at gdr; simp at gdr; omega)
    have hregsT : (s.recvs r).regs ≤ s.T := by
      rw [h.sumT]; exact sumTo_ge_term (fun u => (s.recvs u).regs) hr'
    have htb := h.tb
  · by_cases hsend : ∃ a, (s.senders a).pc = .sending
    · obtain ⟨a, ha⟩ := hsend
      obtain ⟨hword, h1, h2, h3⟩ := h.armed a ha
      rw [hword, add_neg_armed (s.T + s.delivered) d gd (by omega) (by omega)] at hs
      cases hs; simp
    · have hns : ∀ a, (s.senders a).pc ≠ .sending := fun a ha => hsend ⟨a, ha⟩
      rw [(h.idle hns).1, add_neg_idle s.T d gd (by omega) htb] at hs
      cases hs; simp
  · intro ⟨a, ha⟩
    obtain ⟨hword, h1, h2, h3⟩ := h.armed a ha
    rw [hword, add_neg_armed (s.T + s.delivered) d gd (by omega) (by omega)] at hs
    cases hs
    have : ¬ d = 0 := by omega
    simp [this]
  · intro hns
    rw [(h.idle hns).1, add_neg_idle s.T d gd (by omega) htb] at hs
    cases hs; simp

/-- every registration is resolved at most once: what a goroutine registered is what it still holds plus the values
    it received plus what it removed -/
theorem registrations_conserved (s : St) (hr : Reach sys s) (r : Nat) :
    (s.recvs r).registered = (s.recvs r).regs + (s.recvs r).got.length + (s.recvs r).removed :=
  (cinv_reach s hr).conserve r

/-- Send cannot block forever: while sends remain, some receiver is able to take the next one -/
theorem send_never_stuck (s : St) (hr : Reach sys s) (a : Nat) (ha : (s.senders a).pc = .sending)
    (hk : (s.senders a).k < (s.senders a).n) :
    ∃ r, (sys.step s (.deliver a r)).isSome = true ∨ (sys.step s (.absorb a r)).isSome = true := by
  have h := cinv_reach s hr
  obtain ⟨_, _, h2, _⟩ := h.armed a ha
  have hw := h.wOf a (sending_inW ha)
  by_cases hP : 0 < s.P
  · rw [h.sumP] at hP
    obtain ⟨r, _, hkr⟩ := sumTo_pos_witness _ hP
    have hpc : (s.recvs r).pc = .absorbing := by
      cases e : (s.recvs r).pc <;> first | rfl | (have := h.kZero r (by rw [e]; simp); omega)
    exact ⟨r, Or.inr (by simp [sys, step, ha, hk, hpc, hkr])⟩
  · have hT : 0 < s.T := by omega
    rw [h.sumT] at hT
    obtain ⟨r, _, hrr⟩ := sumTo_pos_witness _ hT
    have hnr := h.noRd hw r
    cases e : (s.recvs r).pc with
    | out => exact ⟨r, Or.inl (by simp [sys, step, ha, hk, e, hrr])⟩
    | absorbing => exact ⟨r, Or.inr (by simp [sys, step, ha, hk, e, h.kPos r e])⟩
    | rlocked => exact absurd e hnr.1
    | added => exact absurd e hnr.2

/-- a negative Add that is absorbing cannot block forever either: the armed sender still has a send for it -/
theorem absorbing_never_stuck (s : St) (hr : Reach sys s) (r : Nat) (hpc : (s.recvs r).pc = .absorbing) :
    ∃ a, (sys.step s (.absorb a r)).isSome = true := by
  have h := cinv_reach s hr
  have hk := h.kPos r hpc
  have hrn : r < s.nRecv := lt_nRecv h r (by intro e; rw [e] at hpc; cases hpc)
  have hP : 0 < s.P := by
    have := sumTo_ge_term (fun u => (s.recvs u).k) hrn
    rw [← h.sumP] at this; omega
  have : ∃ a, (s.senders a).pc = .sending := by
    apply Classical.byContradiction
    intro hn
    have := (h.idle (fun a ha => hn ⟨a, ha⟩)).2
    omega
  obtain ⟨a, ha⟩ := this
  obtain ⟨_, _, h2, _⟩ := h.armed a ha
  exact ⟨a, by simp [sys, step, ha, hpc, hk]; omega⟩

/-! ### Liveness: a Send cannot block forever when receivers follow the contract -/

/-- between a point where `p` holds and a later point where it does not, there is a step at which it stops holding -/
theorem last_before_change (p : Nat → Prop) (i j : Nat) (hij : i ≤ j) (hi : p i) (hj : ¬ p j) : ∃ k, i ≤ k ∧ k < j ∧ p k ∧ ¬ p (k + 1) := by
  induction j with
  | zero => have : i = 0 := by omega
            subst this; exact absurd hi hj
  | succ j ih =>
    by_cases hpj : p j
    · by_cases e : i ≤ j
      · exact ⟨j, e, by omega, hpj, hj⟩
      · have : i = j + 1 := by omega
        subst this; exact absurd hi hj
    · by_cases e : i ≤ j
      · obtain ⟨k, h1, h2, h3, h4⟩ := ih e hpj
        exact ⟨k, h1, by omega, h3, h4⟩
      · have : i = j + 1 := by omega
        subst this; exact absurd hi hj

/-- SEND RETURNS.  Along every run that is weakly fair for the steps of the Send holding the mutex and for the rendezvous
    in which a receiver takes its next value (receivers follow the contract: each registration is resolved by receiving or
    by a negative Add — both make progress), a Send that holds the mutex at step `i` returns: there is a later step at
    which it performs its final unlock, with a return value.  (The rank argument is in `BB/Proofs/CasterLive.lean`: a
    failed CAS is paid for by the deregistration that caused it, registrations cannot happen while the mutex is held.) -/
theorem send_holding_the_mutex_returns (a : Nat) (r : Run sys) (hfair : WeakFair sys (fun _ act => holderStep a act) r)
    (i : Nat) (hi : inW ((r.st i).senders a).pc = true) :
    ∃ k, i ≤ k ∧ r.act k = some (.sunlock a) ∧ ((r.st (k + 1)).senders a).pc = .done := by
  obtain ⟨j, hij, hj⟩ := holder_leadsTo_out a r hfair i
  obtain ⟨k, h1, _, h3, h4⟩ := last_before_change (fun n => inW ((r.st n).senders a).pc = true) i j hij hi (by simp [hj])
  have hn := r.next k
  cases ha : r.act k with
  | none => simp only [ha] at hn; rw [hn] at h4; exact absurd h3 h4
  | some act =>
    simp only [ha] at hn
    have hout : inW ((r.st (k + 1)).senders a).pc = false := by cases e : inW ((r.st (k + 1)).senders a).pc <;> simp_all
    obtain ⟨hd, hact⟩ := holder_exit_is_return a (cinv_reach _ (run_reach _ r k)) (cinv_reach _ (run_reach _ r (k + 1))) h3 hn hout
    exact ⟨k, h1, by rw [ha, hact], hd⟩

/-- A NEGATIVE ADD THAT ABSORBS RETURNS.  If receiver `r0` is absorbing (its Add(-d) landed while Send `a` was armed) then, along
    every run weakly fair for that Send's class, `r0` stops absorbing: it has received the values it removed itself from and its
    Add returns — before the Send leaves its send phase. -/
theorem absorbing_add_returns (a r0 : Nat) (r : Run sys) (hfair : WeakFair sys (fun _ act => holderStep a act) r)
    (i : Nat) (hs : ((r.st i).senders a).pc = .sending) : ∃ j, i ≤ j ∧ ((r.st j).recvs r0).pc ≠ .absorbing := by
  obtain ⟨j, hij, hj⟩ := absorbing_leadsTo a r0 r hfair i
  rcases hj with hj | hj
  · exact ⟨j, hij, hj⟩
  · -- the Send left its send phase somewhere in [i, j): at that step nobody is absorbing any more
    obtain ⟨k, h1, _, h3, h4⟩ := last_before_change (fun n => ((r.st n).senders a).pc = .sending) i j hij hs hj
    have hn := r.next k
    cases hact : r.act k with
    | none => simp only [hact] at hn; rw [hn] at h4; exact absurd h3 h4
    | some act =>
      simp only [hact] at hn
      exact ⟨k + 1, by omega, no_absorber_after_send_phase a (cinv_reach _ (run_reach _ r k)) (cinv_reach _ (run_reach _ r (k + 1))) hn h3 h4 r0⟩

/-! a weakly fair run to which the theorem applies: the run of the non-vacuity example below, then stuttering -/
def demoActs : Nat → Option Act
  | 0 => some (.rlock 0 1) | 1 => some (.radd 0) | 2 => some (.runlock 0) | 3 => some (.rlock 1 1) | 4 => some (.radd 1)
  | 5 => some (.runlock 1) | 6 => some (.sbegin 0 42) | 7 => some (.slock 0) | 8 => some (.sload 0) | 9 => some (.scas 0)
  | 10 => some (.neg 1 1) | 11 => some (.deliver 0 0) | 12 => some (.absorb 0 1) | 13 => some (.scheck 0) | 14 => some (.sunlock 0)
  | _ => none

def demoSt : Nat → St
  | 0 => sys.init
  | n + 1 => match demoActs n with
    | some act => (sys.step (demoSt n) act).getD (demoSt n)
    | none => demoSt n

theorem demoSt_final (k : Nat) : demoSt (k + 15) = demoSt 15 := by
  induction k with
  | zero => rfl
  | succ k ih => show demoSt (k + 15) = demoSt 15; exact ih

def demoRun : Run sys where
  st := demoSt
  act := demoActs
  start := rfl
  next := by
    intro i
    match i with
    | 0 => rfl | 1 => rfl | 2 => rfl | 3 => rfl | 4 => rfl | 5 => rfl | 6 => rfl | 7 => rfl | 8 => rfl | 9 => rfl
    | 10 => rfl | 11 => rfl | 12 => rfl | 13 => rfl | 14 => rfl
    | k + 15 => rfl

theorem demoRun_fair : WeakFair sys (fun _ act => holderStep 0 act) demoRun := by
  intro i hen
  by_cases hi : i ≤ 14
  · exact ⟨14, hi, _, rfl, Or.inr (Or.inr (Or.inr (Or.inl rfl)))⟩
  · exfalso
    obtain ⟨act, hH, he⟩ := hen i (Nat.le_refl _)
    have hst : demoRun.st i = demoSt 15 := by
      have := demoSt_final (i - 15); rwa [show i - 15 + 15 = i by omega] at this
    rw [hst] at he
    have hpc : ((demoSt 15).senders 0).pc = .done := by rfl
    rcases hH with e | e | e | e | ⟨x, e⟩ | ⟨x, e⟩ <;> subst e <;> simp [enabled, sys, step, hpc] at he

example : ∃ k, 9 ≤ k ∧ demoRun.act k = some (.sunlock 0) ∧ ((demoRun.st (k + 1)).senders 0).pc = .done :=
  send_holding_the_mutex_returns 0 demoRun demoRun_fair 9 (by rfl)

/-- … and receiver 1, absorbing at step 11 (its Add(-1) landed while Send 0 was armed), gets out -/
example : ((demoRun.st 11).recvs 1).pc = .absorbing ∧ ∃ j, 11 ≤ j ∧ ((demoRun.st j).recvs 1).pc ≠ .absorbing :=
  ⟨by rfl, absorbing_add_returns 0 1 demoRun demoRun_fair 11 (by rfl)⟩

/-- non-vacuity: two receivers register; a Send arms with 2; one deregisters during the Send and absorbs one
    value, the other receives; Send returns 1 = deliveries, 1 + 1 absorbed = 2 registered, word back to 0 -/
example :
    (sys.run sys.init [.rlock 0 1, .radd 0, .runlock 0, .rlock 1 1, .radd 1, .runlock 1, .sbegin 0 42, .slock 0, .sload 0,
        .scas 0, .neg 1 1, .deliver 0 0, .absorb 0 1, .scheck 0, .sunlock 0]).map
      (fun s => ((s.senders 0).ret, (s.recvs 0).got, (s.recvs 1).got, s.word, s.delivered, s.removedDuring, s.panicked)) =
      some (some 1, [42], [], 0, 1, 1, false) := by rfl

/-! ### the state word: every count, every delta in the int range -/

/-- an Add that would take the count outside [0, MaxInt32], or whose delta is out of bounds, panics — from a
    quiescent word with `n` receivers -/
theorem out_of_range_add_panics (n : Nat) (hn : n ≤ MAXR) (delta : Int)
    (hbad : (n : Int) + delta < 0 ∨ (n : Int) + delta > (MAXR : Int)) :
    ∃ w, add (idleWord n) delta = .panic w := by
  by_cases hpos : delta ≥ 0
  · obtain ⟨d, rfl⟩ := Int.eq_ofNat_of_zero_le hpos
    exact add_pos_overflow n d hn (by omega)
  · obtain ⟨d, hd⟩ := Int.eq_ofNat_of_zero_le (show (0 : Int) ≤ -delta by omega)
    have : delta = -(d : Int) := by omega
    subst this
    exact add_neg_underflow_idle n d hn (by omega)

/-- the same while a Send is armed with `h` receivers still counted: removing more than `h` panics -/
theorem unbalanced_remove_during_send_panics (h d : Nat) (hh : h ≤ MAXR) (hd : h < d) :
    ∃ w, add (armedWord h) (-(d : Int)) = .panic w := add_neg_underflow_armed h d hh hd

/-- in-range Adds do not panic and leave the word one expects (so nothing else "goes unnoticed") -/
theorem in_range_add_ok (n : Nat) (hn : n ≤ MAXR) (delta : Int) (h0 : 0 ≤ (n : Int) + delta) (h1 : (n : Int) + delta ≤ (MAXR : Int)) :
    add (idleWord n) delta = .ok (idleWord ((n : Int) + delta).toNat) ((n : Int) + delta).toNat 0 := by
  by_cases hpos : delta ≥ 0
  · obtain ⟨d, rfl⟩ := Int.eq_ofNat_of_zero_le hpos
    have e : ((n : Int) + (d : Int)).toNat = n + d := by omega
    rw [e]
    by_cases hd : d = 0
    · subst hd; simp only [Nat.add_zero]; exact add_zero_idle n (by omega)
    · exact add_pos_idle n d (by omega) (by omega)
  · obtain ⟨d, hd⟩ := Int.eq_ofNat_of_zero_le (show (0 : Int) ≤ -delta by omega)
    have : delta = -(d : Int) := by omega
    subst this
    have e : ((n : Int) + -(d : Int)).toNat = n - d := by omega
    rw [e]
    exact add_neg_idle n d (by omega) (by omega) (by omega)

/-- PARTIAL form of "every later call panics too": an in-bounds delta that drives the count out of range leaves a
    word on which the very next Add(0) and the next Send's load both panic -/
theorem panic_sticky_partial (n : Nat) (hn : n ≤ MAXR) (delta : Int) (hb : -(MAXR : Int) ≤ delta ∧ delta ≤ (MAXR : Int))
    (hbad : (n : Int) + delta < 0 ∨ (n : Int) + delta > (MAXR : Int)) :
    ∃ w, add (idleWord n) delta = .panic w ∧ add w 0 = .panic w ∧ arm w = .panic := by
  by_cases hpos : delta ≥ 0
  · obtain ⟨d, rfl⟩ := Int.eq_ofNat_of_zero_le hpos
    obtain ⟨h1, h2, h3⟩ := overflow_leaves_bad_word n d hn (by omega) (by omega)
    exact ⟨_, h1, bad_word_panics _ h2 h3⟩
  · obtain ⟨d, hd⟩ := Int.eq_ofNat_of_zero_le (show (0 : Int) ≤ -delta by omega)
    have : delta = -(d : Int) := by omega
    subst this
    obtain ⟨w, h1, h2, h3⟩ := underflow_leaves_bad_word n d hn (by omega) (by omega)
    exact ⟨w, h1, bad_word_panics w h2 h3⟩

/-- the full clause is false (known finding F6): after Add(1), the unbalanced Add(-2) panics and so do Add(0) and
    Add(2) — but that Add(2) restores a valid word, and the following Add(0) returns 1 as if nothing had happened;
    and an out-of-bounds delta panics without leaving any trace at all -/
theorem panic_not_sticky :
    ∃ w1 w2 w3, add 0 1 = .ok w1 1 0 ∧ add w1 (-2) = .panic w2 ∧ add w2 0 = .panic w2 ∧ add w2 2 = .panic w3 ∧
      add w3 0 = .ok w3 1 0 ∧ arm w3 = .armed (armedWord 1) 1 :=
  ⟨4294967297, 18446744069414584319, 4294967297, by decide, by decide, by decide, by decide, by decide, by decide⟩

theorem out_of_bounds_delta_leaves_no_trace (w : Nat) (delta : Int) (h : delta > (MAXR : Int) ∨ delta < -(MAXR : Int)) :
    add w delta = .panic w := add_out_of_bounds w delta h

end BB.Props.C08
