import BB.Oracle.Util
import BB.Model.Caster

/-
  `casterword`: sequential Add / Send calls replayed on the word model (BB.Model.CasterWord).
  `caster`: T3 acceptance of the hook-event log of a concurrent run by the protocol model (BB.Model.Caster); every
  atomic event carries the state word it left, which must be the model's.
-/
namespace BB.Oracle.CasterWordFam
open BB.Caster BB.Oracle

def kv (s k : String) : Option Nat :=
  if s.startsWith (k ++ "=") then (s.drop (k.length + 1)).toString.toNat? else none

def step (w : Nat) (ws : List String) : Option (Nat × String × List String) :=
  match ws with
  | ["add", d] => do
    let d ← d.toInt?
    match add w d with
    | .ok w' ret ab =>
      if ab > 0 then some (w', "skipped", ["would_absorb"]) else
      some (w', s!"ok {ret} w={w'}", (if d > 0 then ["add_pos"] else if d < 0 then ["add_neg"] else ["add_zero"]) ++
        (if w != 0 && hi w != lo w then ["ok_on_odd_word"] else []))
    | .panic w' => some (w', s!"panic w={w'}",
        (if d > (MAXR : Int) || d < -(MAXR : Int) then ["panic_out_of_bounds_delta"] else
         if hi w ≤ MAXR && hi w == lo w then (if d > 0 then ["panic_overflow"] else ["panic_underflow"]) else ["panic_on_bad_word"]) ++
        (if (hi w > MAXR || hi w != lo w) && hi w' ≤ MAXR && hi w' == lo w' then ["panic_restores_valid_word"] else []))
  | ["send", _] =>
    match arm w with
    | .zero => some (w, s!"ok 0 w={w}", ["send_zero"])
    | .panic => some (w, s!"panic w={w}", ["send_panic_on_bad_word"])
    | .armed w' n =>
      if n > 16 then some (w, "skipped", []) else
      match finish w' n with
      | some t => some (0, s!"ok {t} w=0", ["send_buffered"])
      | none => some (w', s!"panic w={w'}", ["send_final_panic"])
  | _ => none

def fam : Fam := { init := (0 : Nat), step := step }
end BB.Oracle.CasterWordFam

namespace BB.Oracle.CasterFam
open BB.Caster BB.Oracle

structure S where
  st : St := {}
  rmap : List (String × Nat) := []      -- harness receiver name ↦ model index (allocated in order of first rlock)
  smap : List (String × Nat) := []      -- harness sender name ↦ model sender id (a fresh id per Send call)
  nextS : Nat := 0
  vals : List (Nat × Nat) := []         -- model sender id ↦ value of the call
  rets : List (String × Nat) := []      -- expected return value of the running Add of a receiver / Send of a sender

def rej (x : S) (why : String) : Option (S × String × List String) := some (x, "rejected: " ++ why, [])
def ok (x : S) (tags : List String := []) : Option (S × String × List String) := some (x, "ok", tags)
def kv := CasterWordFam.kv

def act (x : S) (a : Act) (why : String) (tags : List String := []) (chk : St → Option String := fun _ => none) :
    Option (S × String × List String) :=
  match BB.Caster.step x.st a with
  | none => rej x why
  | some st' =>
    if st'.panicked then rej x "the model panics here" else
    match chk st' with
    | some e => rej x e
    | none => ok { x with st := st' } tags

def wordIs (w : Nat) : St → Option String := fun st => if st.word == w then none else some s!"state word: model {st.word}"

def ridx (x : S) (r : String) : S × Nat :=
  match x.rmap.lookup r with
  | some i => (x, i)
  | none => ({ x with rmap := (r, x.st.nRecv) :: x.rmap }, x.st.nRecv)

def anySending (x : S) : Bool := x.smap.any (fun p => (x.st.senders p.2).pc == .sending)

def step (x : S) (ws : List String) : Option (S × String × List String) :=
  match ws with
  | ["run", _, _, _] => ok {}
  | ["sendcall", s, v] => do
    let v ← kv v "v"
    ok { x with smap := (s, x.nextS) :: x.smap.filter (·.1 != s), nextS := x.nextS + 1, vals := (x.nextS, v) :: x.vals }
  | ["send.fast", s, n, w] => do
    let n ← kv n "n"; let w ← kv w "w"
    let a ← x.smap.lookup s
    let v ← x.vals.lookup a
    if x.st.word != w then rej x s!"state word: model {x.st.word}" else
    act x (.sbegin a v) "Send began twice" (if n == 0 then ["send_fast_zero"] else [])
      (fun st => if (n == 0) == ((st.senders a).pc == .done) then none else some "fast path taken / not taken against the model")
  | ["send.locked", s, _] => do
    let a ← x.smap.lookup s
    act x (.slock a) "Send got the lock while another Send or a positive Add holds it" ["send_locked"]
  | ["send.load", s, _, w] => do
    let w ← kv w "w"
    let a ← x.smap.lookup s
    if x.st.word != w then rej x s!"state word: model {x.st.word}" else
    act x (.sload a) "load outside the locked region"
      (if (x.st.senders a).pc == .locked && x.st.word == 0 then ["send_slow_zero"] else [])
  | ["send.cas", s, n, w] => do
    let n ← kv n "n"; let w ← kv w "w"
    let a ← x.smap.lookup s
    act x (.scas a) "CAS without a preceding load" (if n == 0 then ["cas_failed_by_racing_remove"] else ["armed"])
      (fun st => if (n == 1) != ((st.senders a).pc == .sending) then some s!"CAS outcome: model {(st.senders a).pc == .sending}"
                 else wordIs w st)
  | ["xfer", s, "recv", r, v] => do
    let v ← kv v "v"
    let a ← x.smap.lookup s
    let i ← x.rmap.lookup r
    if x.vals.lookup a != some v then rej x "a receiver got a value that is not the armed Send's" else
    act x (.deliver a i) "a value was received by a goroutine that holds no registration, or the Send had no send left" ["deliver"]
  | ["xfer", s, "add.absorbed", r, _] => do
    let a ← x.smap.lookup s
    let i ← x.rmap.lookup r
    act x (.absorb a i) "a negative Add absorbed a value it was not owed" ["absorb"]
  | ["send.final", s, n, w] => do
    let w ← kv w "w"
    let a ← x.smap.lookup s
    match kv n "n" with
    | none => rej x "Send's final validation panicked"
    | some n =>
      let rd := x.st.removedDuring
      act { x with rets := (s, n) :: x.rets.filter (·.1 != s) } (.scheck a) "final validation before all sends were done"
        (["send_complete"] ++ (if rd > 0 then ["send_with_removals"] else []))
        (fun st => if (st.senders a).ret != some n then some s!"Send result: model {(st.senders a).ret}" else wordIs w st)
  | ["send.unlock", s, _] => do
    let a ← x.smap.lookup s
    act x (.sunlock a) "unlock outside the locked region"
  | ["sendret", s, ret] => do
    let ret ← kv ret "ret"
    let a ← x.smap.lookup s
    if (x.st.senders a).pc == .done && (x.st.senders a).ret == some ret then ok x else rej x s!"Send returned {ret}; model {(x.st.senders a).ret}"
  | ["add.rlocked", r, n] => do
    let d ← kv n "n"
    let (x, i) := ridx x r
    act x (.rlock i d) "a positive Add got the read lock while a Send holds the lock" ["rlock"]
  | ["add.pos", r, _, w] => do
    let w ← kv w "w"
    let i ← x.rmap.lookup r
    act x (.radd i) "atomic add outside the read-locked region" [] (wordIs w)
  | ["add.runlock", r, _] => do
    let i ← x.rmap.lookup r
    act x (.runlock i) "RUnlock outside the read-locked region"
  | ["add.neg", r, n, w] => do
    let d ← kv n "n"; let w ← kv w "w"
    let i ← x.rmap.lookup r
    let armed := anySending x
    act x (.neg i d) "a negative Add beyond the registrations its goroutine holds"
      (if armed then ["remove_during_send"] else if x.smap.any (fun p => (x.st.senders p.2).pc == .loaded) then ["remove_between_load_and_cas"] else ["remove_idle"])
      (wordIs w)
  | ["add.load", _, _, w] => do
    let w ← kv w "w"
    if x.st.word == w then ok x ["add_zero"] else rej x s!"state word: model {x.st.word}"
  | ["addret", r, ret] => do
    let ret ← kv ret "ret"
    let i ← x.rmap.lookup r
    -- Add returns the receiver count its atomic operation left; the model's word has moved on since, so only sanity is checked here
    if (x.st.recvs i).pc == .out then ok x (if ret == 0 then [] else []) else rej x "Add returned while the model still has it absorbing / locked"
  | ["panic", who, msg] => rej x s!"a call panicked: {who} {msg}"
  | ["final", w] => do
    let w ← kv w "w"
    if x.st.word != w then rej x s!"final word: model {x.st.word}" else
    if w != 0 then rej x "registrations left at the end" else
    if x.st.T != 0 || x.st.P != 0 then rej x "model: registrations / absorbs outstanding" else
    if x.smap.any (fun p => (x.st.senders p.2).pc != .done) then rej x "model: a Send has not returned" else ok x
  | _ => none

def fam : Fam := { init := ({} : S), step := step }
end BB.Oracle.CasterFam
