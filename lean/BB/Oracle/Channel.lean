import BB.Oracle.Util
import BB.Model.Channel

namespace BB.Oracle.ChannelFam
open BB.Channel BB.Oracle

def errStr : Err → String
  | .canceled => "canceled" | .nothingToCommit => "nocommit" | .nothingToRollback => "norollback" | .once => "once"
def optErr : Option Err → String
  | none => "ok" | some e => "err " ++ errStr e

structure S where
  st : St := {}
  rolledBack : Bool := false
  partialReread : Bool := false
  pendingGet : Bool := false      -- a Get started by "bget" is still polling

def step (x : S) (w : List String) : Option (S × String × List String) :=
  let s := x.st
  match w with
  | ["send", v] => do
    let v ← v.toNat?
    some ({ x with st := send s v }, "ok", [])
  | ["closesrc"] => some ({ x with st := closeSrc s }, "ok", ["src_closed"])
  | ["get"] =>
    if x.pendingGet then none else
    let (s', r) := getOp s
    match r with
    | .val v =>
      let replay := s.rollback > 0
      some ({ x with st := s', partialReread := x.partialReread || (replay && s'.rollback > 0) }, s!"val {v}",
        (if replay then ["replay"] else []) ++ (if s.srcClosed then ["get_after_srcclose"] else []))
    | .blocked => some (x, "blocked", if s.srcClosed then ["blocked_closed_src"] else ["blocked"])
    | .err e => some (x, "err " ++ errStr e, ["get_err"])
  | ["getflipres", "val", v] => do
    -- a Get whose context was cancelled right after its up-front check, and which reported a value: it is one model Get
    let v ← v.toNat?
    if x.pendingGet then none else
    let (s', r) := getOp s
    match r with
    | .val v' => if v' == v then some ({ x with st := s' }, "ok", ["get_with_late_cancel_took_value"])
                 else some (x, s!"rejected: the model's next value is {v'}", [])
    | _ => some (x, "rejected: nothing to take in the model", [])
  | ["getflipres", "err"] =>
    -- … and one that reported the context's error: it took NOTHING (C13: the state / buffer lines that follow compare)
    if x.pendingGet then none else some (x, "ok", ["get_with_late_cancel_failed"])
  | ["pget", n] => do
    -- n values are sent, then n Gets run (on four goroutines): n polls of the model, in whatever order the goroutines take turns
    let n ← n.toNat?
    if x.pendingGet then none else
    let s1 := (List.range n).foldl (fun s i => send s (7000 + i)) s
    -- the script is skipped by the harness when the source is closed or too full: mirror the skip conditions
    if s.srcClosed || s.src.length + n > 256 then some (x, "skipped", []) else
    let closedErr := s1.closed
    let s2 := (List.range n).foldl (fun s _ => (getOp s).1) s1
    some ({ x with st := s2 }, (if closedErr then "get-failed " else "buf ") ++ fmtNats s2.buffer, ["concurrent_gets"])
  | ["bget"] =>
    -- a Get that keeps polling while the following operations run: each poll is one `getOp`
    if x.pendingGet then none else
    let (s', r) := getOp s
    match r with
    | .val v => some ({ x with st := s' }, s!"val {v}", if s.rollback > 0 then ["replay"] else [])
    | .blocked => some ({ x with pendingGet := true }, "pending", ["get_left_blocked"])
    | .err e => some (x, "err " ++ errStr e, ["get_err"])
  | ["bgetres"] =>
    -- after an operation: the blocked Get returns as soon as one of its polls finds something
    if !x.pendingGet then none else
    let (s', r) := getOp s
    match r with
    | .val v => some ({ x with st := s', pendingGet := false }, s!"val {v}",
        if s.rollback > 0 then ["blocked_get_woken_by_rollback", "replay"] else ["blocked_get_woken_by_send"])
    | .blocked => some (x, "pending", [])
    | .err e => some ({ x with pendingGet := false }, "err " ++ errStr e, ["blocked_get_woken_by_close"])
  | ["commit"] =>
    let (s', e) := commit s
    some ({ x with st := s' }, optErr e,
      if e.isNone && s.rollback > 0 then ["commit_partial_reread"] else if e.isNone then ["commit"] else [])
  | ["rollback"] =>
    let (s', e) := rollbackOp s
    some ({ x with st := s', rolledBack := true }, optErr e,
      if e.isNone && s.rollback > 0 then ["rollback_after_partial_reread"] else if e.isNone then ["rollback"] else [])
  | ["buffer"] => some (x, fmtNats s.buffer, [])
  | ["close"] =>
    let (s', e) := close s
    some ({ x with st := s' }, optErr e, ["close"])
  | ["cancel"] => some ({ x with st := { s with closed := true } }, "ok", ["ctx_cancel"])
  | ["state"] => some (x, s!"buf={s.buffer.length} rb={s.rollback}", [])
  | ["drain"] => some (x, fmtNats s.src, [])
  | _ => none

def fam : Fam := { init := ({} : S), step := step }
end BB.Oracle.ChannelFam
