import BB.Oracle.Util
import BB.Model.Worker

namespace BB.Oracle.WorkerFam
open BB.Worker BB.Oracle

structure S where
  st : St := {}
  holders : List (Nat × Nat) := []   -- token ↦ wait group id
  earlyStop : Bool := false          -- the stop decision was inferred from the function seeing `stop` closed
  earlyFn : Bool := false            -- the function goroutine logged its start before the Do that spawned it logged

def rej (x : S) (why : String) : Option (S × String × List String) := some (x, "rejected: " ++ why, [])

def act (x : S) (a : Act) (why : String) (tags : List String := []) : Option (S × String × List String) :=
  match BB.Worker.step x.st a with
  | some st' => some ({ x with st := st' }, "ok", tags)
  | none => rej x why

def step (x : S) (w : List String) : Option (S × String × List String) :=
  match w with
  | ["run", _, _, _] => some ({}, "ok", [])
  | ["churn", _, _, _] => some ({}, "ok", ["churn"])
  | ["hammer", _, _, _] =>
    -- BB.Props.C17.stop_after_all_done / held_implies_running_open: stop is never closed while a holder is outstanding
    some ({}, "held_when_stopped=0", ["hammer"])
  | ["do", tok, started] => do
    let tok ← tok.toNat?
    match BB.Worker.step x.st .do_ with
    | none => rej x "Do's critical section ran while the watcher holds the mutex (instance stopping)"
    | some st' =>
      let startedM := st'.started != x.st.started
      if (started == "started=1") != startedM then rej x s!"instance start: model {startedM}" else
      if x.earlyFn && !startedM then rej x "a function instance started although an instance already exists" else
      let x := { x with earlyFn := false }
      match st'.wgCur with
      | some id => some ({ x with st := st', holders := (tok, id) :: x.holders }, "ok",
          (if startedM && x.st.started > 0 then ["fresh_instance_after_stop"] else []) ++
          (if x.st.watcher != some .top && x.st.inst then ["do_while_watcher_waiting"] else []))
      | none => rej x "no current wait group after Do"
  | ["done", tok] => do
    let tok ← tok.toNat?
    match x.holders.lookup tok with
    | some id => act x (.done id) "done without an outstanding holder"
    | none => rej x "done of an unknown holder"
  | ["take"] =>
    if x.st.wgCur.isSome then act x .take "watcher took a wait group while not at the top of its loop" ["take"]
    else rej x "watcher took a wait group but none is current"
  | ["waited"] => act x .waited "wg.Wait returned while a holder of that wait group is outstanding" ["waited"]
  | ["stopclosed"] =>
    if x.earlyStop then some ({ x with earlyStop := false }, "ok", ["stop_seen_before_hook"])
    else if x.st.wgCur.isNone then
      if held x.st then rej x "stop closed while a done function is outstanding" else act x .take "stop closed while the watcher is not at the top of its loop" ["stop"]
    else rej x "stop closed although a wait group is current (a holder arrived)"
  | ["fnstart"] =>
    if x.st.inst && x.st.live == 1 && !x.earlyFn then some (x, "ok", [])
    else if !x.st.inst && !x.earlyFn then some ({ x with earlyFn := true }, "ok", ["fn_before_do_hook"])
    else rej x "function started without a single live instance"
  | ["fnsawstop"] =>
    if x.st.stopClosed then some (x, "ok", [])
    else if x.st.watcher == some .top && x.st.wgCur.isNone && !held x.st then
      -- close(stop) happened; the watcher's hook point after it has not been reached yet
      match BB.Worker.step x.st .take with
      | some st' => some ({ x with st := st', earlyStop := true }, "ok", [])
      | none => rej x "?"
    else rej x "function saw stop closed while holders are outstanding / watcher not stopping"
  | ["fnreturned"] => act x .fnReturn "function returned although stop is not closed" []
  | ["exited"] => act x .finish "watcher exited before the function returned" ["instance_exited"]
  | ["final", live] =>
    if x.st.inst == false && !x.earlyFn && live == "live=0" then some (x, "ok", []) else rej x s!"final: model inst={x.st.inst}"
  | _ => none

def fam : Fam := { init := ({} : S), step := step }
end BB.Oracle.WorkerFam
