import BB.Oracle.Util
import BB.Model.WaitCond

namespace BB.Oracle.WaitCondFam
open BB.WaitCond BB.Oracle

def returned (s : St) : Bool := s.pc == .retNil || s.pc == .retErr

/-- a fair scheduler: alternate waiter / watcher steps until the call has returned or nothing moves -/
def runFair : Nat → St → St
  | 0, s => s
  | n + 1, s =>
    if returned s then s else
    match step good s .step with
    | some s1 =>
      match step good s1 .wstep with
      | some s2 => runFair n s2
      | none => runFair n s1
    | none =>
      match step good s .wstep with
      | some s1 => runFair n s1
      | none => s

def inject (s : St) (event : String) : St :=
  let s := if event == "cancel" || event == "both" then (step good s .cancel).getD s else s
  s

/-- a `set` while the waiter holds the lock queues behind it: it takes effect as soon as the lock is free -/
def settle (event : String) : Nat → St → St
  | 0, s => s
  | n + 1, s =>
    if returned s then s else
    if (event == "set" || event == "both") && !s.p then
      match step good s (.mutate true) with
      | some s1 => settle event n s1
      | none =>
        -- lock busy: let the holder move
        match step good s .step with
        | some s1 => settle event n s1
        | none => match step good s .wstep with
          | some s1 => settle event n s1
          | none => s
    else runFair 30 s

def simulate (event window : String) : String :=
  let s0 : St := {}
  let final :=
    match window with
    | "before" => settle event 30 (inject (if event == "set" || event == "both" then { s0 with p := true } else s0) event)
    | "pred" =>
      let s1 := (step good s0 .step).getD s0      -- top -> pred (held just before evaluating the predicate)
      settle event 30 (inject s1 event)
    | "wait" | "parked" =>
      let s1 := (step good s0 .step).getD s0
      -- held between predicate and park: the waiter still holds the lock, the event queues up behind it; for
      -- `parked` the waiter is already inside cond.Wait: same interleaving class, the event comes after the park
      let s2 := if window == "parked" then (step good s1 .step).getD s1 else s1
      settle event 30 (inject s2 event)
    | _ => s0
  match final.pc with
  | .retNil => "nil"
  | .retErr => "err"
  | _ => "hang"

def stepF (_ : Unit) (w : List String) : Option (Unit × String × List String) :=
  match w with
  | ["wc", event, window] =>
    let r := simulate event window
    some ((), r, [s!"{event}_{window}"] ++ (if window == "wait" || window == "pred" then ["event_between_check_and_park"] else []))
  | _ => none

def fam : Fam := { init := (), step := stepF }
end BB.Oracle.WaitCondFam
