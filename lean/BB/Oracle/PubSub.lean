import BB.Oracle.Util
import BB.Model.PubSub

/-
  T3 acceptance of the hook-event log of a concurrent ChanPubSub run by the protocol model `BB.PubSub`.
  Atomic events carry the value they left (subscriber count, caster word), which must be the model's.
-/
namespace BB.Oracle.PubSubFam
open BB.PubSub BB.Caster BB.Oracle

structure S where
  st : St := {}
  umap : List (String × Nat) := []      -- subscriber goroutine ↦ model index
  smap : List (String × Nat) := []      -- sender goroutine ↦ model sender id of its current Send
  nextS : Nat := 0
  vals : List (Nat × Nat) := []
  cur : List (String × Nat) := []       -- value a manual subscriber has just received (for `acked`)
  iterRecv : List (String × Nat) := []  -- receptions of the running iterator of a subscriber goroutine
  iterYield : List (String × Nat) := [] -- values its loop body was handed

def rej (x : S) (why : String) : Option (S × String × List String) := some (x, "rejected: " ++ why, [])
def ok (x : S) (tags : List String := []) : Option (S × String × List String) := some (x, "ok", tags)

def kv (s k : String) : Option Nat :=
  if s.startsWith (k ++ "=") then (s.drop (k.length + 1)).toString.toNat? else none

def act (x : S) (a : Act) (why : String) (tags : List String := []) (chk : St → Option String := fun _ => none) :
    Option (S × String × List String) :=
  match BB.PubSub.step x.st a with
  | none => rej x why
  | some st' =>
    if st'.panicked then rej x "the model panics here (state invariant violation)" else
    match chk st' with
    | some e => rej x e
    | none => ok { x with st := st' } tags

def wordIs (w : Nat) : St → Option String := fun st => if st.word == w then none else some s!"caster word: model {st.word}"
def subsIs (n : Nat) : St → Option String := fun st => if st.subsCount == n then none else some s!"subscriber count: model {st.subsCount}"

def uidx (x : S) (u : String) : S × Nat :=
  match x.umap.lookup u with
  | some i => (x, i)
  | none => ({ x with umap := (u, x.st.nSubs) :: x.umap }, x.st.nSubs)

def isSender (n : String) : Bool := n.startsWith "s"

def pcName : UPc → String
  | .out => "out" | .subRlocked => "subRlocked" | .subAdded => "subAdded" | .idle => "idle" | .got => "got"
  | .tryFailed => "tryFailed" | .unsubLocked => "unsubLocked" | .unsubDec => "unsubDec" | .sawPing => "sawPing"
  | .decNoLock => "decNoLock" | .absorbing => "absorbing"

def step (x : S) (ws : List String) : Option (S × String × List String) :=
  match ws with
  | ["run", _, _, _] => ok {}
  | ["panic", who, msg] => rej x s!"a call panicked: {who} {msg}"
  | ["forced", _, _] => ok {}
  | ["forced", a] => ok x (if a == "held=true" then ["forced_schedule_reached"] else ["forced_schedule_not_reached"])
  -- ---- Send
  | ["sendcall", s, v] => do
    let v ← kv v "v"
    ok { x with smap := (s, x.nextS) :: x.smap.filter (·.1 != s), nextS := x.nextS + 1, vals := (x.nextS, v) :: x.vals }
  | ["pubsub.send.fast", s, n] => do
    let n ← kv n "n"
    let a ← x.smap.lookup s
    let v ← x.vals.lookup a
    act x (.sbegin a v) "Send began twice" (if n == 0 then ["send_fast_zero"] else [])
      (fun st => if (n == 0) == ((st.senders a).pc == .done) then none else some s!"fast path: model sees {x.st.subsCount} subscribers")
  | ["pubsub.send.sendmu", s, _] => do
    let a ← x.smap.lookup s
    act x (.sendMu a) "two Sends inside sendMu"
  | ["pubsub.send.sending", s, _] => do
    let a ← x.smap.lookup s
    act x (.sending a) "Send got sendingMu while a subscribe/unsubscribe section or another Send holds it" ["sending"]
  | ["pubsub.send.subs", s, n] => do
    let n ← kv n "n"
    let a ← x.smap.lookup s
    if x.st.subsCount != n then rej x s!"subscriber count read by Send: model {x.st.subsCount}" else
    act x (.count a) "count outside the locked region" (if n == 0 then ["send_slow_zero"] else [])
  | ["caster.add.rlocked", s, _] => if isSender s then ok x else none
  | ["caster.add.runlock", s, _] => if isSender s then ok x else none
  | ["caster.add.pos", s, _, w] => do
    let w ← kv w "w"
    let a ← x.smap.lookup s
    act x (.pingAdd a) "ping.Add outside the locked region" [] (wordIs w)
  | ["caster.send.fast", s, _, w] => do
    let w ← kv w "w"
    let a ← x.smap.lookup s
    if x.st.word != w then rej x s!"caster word: model {x.st.word}" else
    act x (.cfast a) "ping.Send before ping.Add" (if w == 0 then ["all_left_before_ping_send"] else [])
  | ["caster.send.locked", _, _] => ok x
  | ["caster.send.unlock", _, _] => ok x
  | ["caster.send.load", s, _, w] => do
    let w ← kv w "w"
    let a ← x.smap.lookup s
    if x.st.word != w then rej x s!"caster word: model {x.st.word}" else
    act x (.cload a) "load outside the CAS loop" (if w == 0 then ["all_left_before_cas"] else [])
  | ["caster.send.cas", s, n, w] => do
    let n ← kv n "n"; let w ← kv w "w"
    let a ← x.smap.lookup s
    act x (.ccas a) "CAS without a preceding load" (if n == 0 then ["cas_failed_by_racing_unsubscribe"] else ["armed"])
      (fun st => if (n == 1) != ((st.senders a).pc == .sending) then some "CAS outcome differs" else wordIs w st)
  | ["caster.send.final", s, n, w] => do
    let w ← kv w "w"
    let a ← x.smap.lookup s
    match kv n "n" with
    | none => rej x "ping.Send's final validation panicked"
    | some n =>
      act x (.cfinal a) "final validation before all sends were done" ["send_phase_complete"]
        (fun st => if (st.senders a).sent != n then some s!"ping.Send result: model {(st.senders a).sent}" else wordIs w st)
  | ["pubsub.send.unsending", s, n] => do
    let n ← kv n "n"
    let a ← x.smap.lookup s
    if n == 1 then (if (x.st.senders a).pc == .done then ok x else rej x "Send left through its deferred unlock (early return or panic)") else
    act x (.unsending a) "sendingMu released outside the send phase"
  | ["pubsub.send.pong", s, n] => do
    let n ← kv n "n"
    let a ← x.smap.lookup s
    if (x.st.senders a).sent != n then rej x s!"pongs to wait for: model {(x.st.senders a).sent}" else
    act x (.pong a) "pong phase entered while pongs of another Send are outstanding" ["pong"]
  | ["pubsub.send.ponged", s, _] => do
    let a ← x.smap.lookup s
    act x (.ponged a) "Send stopped waiting while pongs are outstanding" ["ponged"]
  | ["pubsub.send.done", s, _] => do
    let a ← x.smap.lookup s
    let pc := (x.st.senders a).pc
    if pc == .done then ok x else
    if pc == .released && (x.st.senders a).sent == 0 then
      -- nothing was sent: no pong phase
      match BB.PubSub.step x.st (.pong a) with
      | some s1 => match BB.PubSub.step s1 (.ponged a) with
        | some s2 => match BB.PubSub.step s2 (.sdone a) with
          | some s3 => ok { x with st := s3 } ["send_returned_zero_after_lock"]
          | none => rej x "?"
        | none => rej x "?"
      | none => rej x "?"
    else if pc == .checked then rej x "the Send call ended while still holding sendingMu (write)"
    else act x (.sdone a) "Send returned before its pongs were consumed"
  | ["sendret", s, ret] => do
    let ret ← kv ret "ret"
    let a ← x.smap.lookup s
    if (x.st.senders a).pc == .done && (x.st.senders a).ret == some ret then ok x (if ret > 0 then ["send_nonzero"] else [])
    else rej x s!"Send returned {ret}; model {(x.st.senders a).ret}"
  -- ---- subscribe
  | ["pubsub.sub.rlocked", u, _] => do
    let (x, i) := uidx x u
    act x (.subLock i) "a subscribe section overlaps a Send's locked region" ["subscribe"]
  | ["pubsub.sub.subs", u, n] => do
    let n ← kv n "n"
    let i ← x.umap.lookup u
    act x (.subInc i) "increment outside the section" [] (subsIs n)
  | ["pubsub.sub.runlock", u, _] => do
    let i ← x.umap.lookup u
    act x (.subUnlock i) "unlock outside the section"
  -- ---- receive / Wait
  | ["xfer", s, "recv", u, v] => do
    let v ← kv v "v"
    let a ← x.smap.lookup s
    let i ← x.umap.lookup u
    if x.vals.lookup a != some v then rej x "a subscriber received a value that is not the current Send's" else
    act { x with cur := (u, v) :: x.cur.filter (·.1 != u) } (.recv a i)
      s!"a value was received by a subscriber that is not between rounds (model pc {pcName (x.st.subs i).pc}), or the Send had none left" ["deliver"]
  | ["xfer", s, "pubsub.iter.recv", u, _] => do
    let a ← x.smap.lookup s
    let i ← x.umap.lookup u
    let n := (x.iterRecv.lookup u).getD 0
    act { x with iterRecv := (u, n + 1) :: x.iterRecv.filter (·.1 != u) } (.recv a i)
      s!"a value was received by a subscriber that is not between rounds (model pc {pcName (x.st.subs i).pc}), or the Send had none left" ["deliver_iter"]
  | ["xfer", s, "caster.add.absorbed", u, _] => do
    let a ← x.smap.lookup s
    let i ← x.umap.lookup u
    act x (.absorb a i) "an unsubscribe absorbed a value it was not owed" ["absorb"]
  | ["pubsub.wait.consumed", u, n] => do
    let n ← kv n "n"
    let i ← x.umap.lookup u
    act x (.consume i) "Wait consumed a pong before the Send published them / without having received" ["pong_consumed"]
      (fun st => if st.pongN == n then none else some s!"pongs left: model {st.pongN}")
  | ["acked", u, v] => do
    let v ← kv v "v"
    let i ← x.umap.lookup u
    if (x.st.subs i).got.getLast? == some v then ok x else rej x "acknowledged value differs from the model's"
  | ["yield", u, v] => do
    let v ← kv v "v"
    let i ← x.umap.lookup u
    let n := (x.iterYield.lookup u).getD 0
    if (x.st.subs i).got.getLast? == some v then ok { x with iterYield := (u, n + 1) :: x.iterYield.filter (·.1 != u) } ["yield"]
    else rej x s!"the iterator yielded {v}; model {(x.st.subs i).got.getLast?}"
  | ["iterend", u] =>
    -- every value the iterator received (and acknowledged, so the Send counted it) must have been handed to the loop body
    let r := (x.iterRecv.lookup u).getD 0
    let y := (x.iterYield.lookup u).getD 0
    let x := { x with iterRecv := x.iterRecv.filter (·.1 != u), iterYield := x.iterYield.filter (·.1 != u) }
    if r == y then ok x else rej x s!"the iterator received {r} values but its loop body was handed {y}"
  | ["nilyield", _] => ok x ["nil_yield_after_cancel"]   -- no unsubscribe event may precede it (the cancellation already withdrew)
  -- ---- unsubscribe
  | ["pubsub.unsub.try", u, n] => do
    let n ← kv n "n"
    let i ← x.umap.lookup u
    if n == 1 then act x (.tryOk i) s!"TryRLock succeeded while a Send holds sendingMu, or outside an unsubscribe (model pc {pcName (x.st.subs i).pc})" ["unsub_locked"]
    else act x (.tryFail i) s!"unsubscribe by a subscriber that is not between rounds (model pc {pcName (x.st.subs i).pc})" ["unsub_try_failed"]
  | ["caster.add.load", u, _, w] => do
    let w ← kv w "w"
    let i ← x.umap.lookup u
    if x.st.word != w then rej x s!"caster word: model {x.st.word}" else
    if hi w == 0 then act x (.pingZero i) "ping.Add(0) outside the unsubscribe loop" ["unsub_spin"]
    else act x (.pingNonZero i) "ping.Add(0) outside the unsubscribe loop" ["unsub_sees_send_in_progress"]
  | ["pubsub.unsub.subs", u, n] => do
    let n ← kv n "n"
    let i ← x.umap.lookup u
    if (x.st.subs i).pc == .unsubLocked then act x (.unsubDecL i) "decrement" [] (subsIs n)
    else act x (.unsubDecN i) s!"decrement by a subscriber that neither holds the lock nor saw a Send in progress (model pc {pcName (x.st.subs i).pc})" [] (subsIs n)
  | ["pubsub.unsub.runlock", u, _] => do
    let i ← x.umap.lookup u
    act x (.unsubUnlock i) "unlock outside the section"
  | ["caster.add.neg", u, _, w] => do
    let w ← kv w "w"
    let i ← x.umap.lookup u
    let armed := x.smap.any (fun p => (x.st.senders p.2).pc == .sending)
    act x (.pingSub i) "ping.Add(-1) by a subscriber that did not take the no-lock path"
      (if armed then ["unsub_during_send_phase"] else ["unsub_between_ping_add_and_cas"]) (wordIs w)
  | ["final", subs, w, broken] => do
    let n ← kv subs "subs"; let w ← kv w "w"
    if broken != "broken=false" then rej x "the instance is broken" else
    if x.st.subsCount != n then rej x s!"final subscriber count: model {x.st.subsCount}" else
    if x.st.word != w || w != 0 then rej x "caster word not 0 at the end" else
    if n != 0 then rej x "subscribers left at the end" else
    if x.smap.any (fun p => (x.st.senders p.2).pc != .done) then rej x "model: a Send has not returned" else
    if x.umap.any (fun p => (x.st.subs p.2).pc != .out) then rej x "model: a subscriber call has not finished" else
    if x.st.pongN != 0 then rej x "pongs outstanding" else ok x
  | _ => none

def fam : Fam := { init := ({} : S), step := step }
end BB.Oracle.PubSubFam
