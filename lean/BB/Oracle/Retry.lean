import BB.Oracle.Util
import BB.Model.Retry

namespace BB.Oracle.RetryFam
open BB.Retry BB.Oracle

def parseItem (w : String) : Option Item :=
  let cancel := w.endsWith "!"
  let w := if cancel then (w.dropEnd 1).toString else w
  if w.startsWith "o" then
    match (w.drop 1).toString.toNat? with
    | some r => some { result := some r, err := none, cancelDuring := cancel }
    | none => none
  else if w.startsWith "e" then
    match (w.drop 1).toString.toNat? with
    | some i => some { result := none, err := some (.base i), cancelDuring := cancel }
    | none => none
  else if w.startsWith "f" then
    match (w.drop 1).toString.splitOn ":" with
    | [d, i, r] => do
      let d ← d.toNat?
      let i ← i.toNat?
      let r := r.toNat?
      some { result := r, err := some (wrap d (.base i)), cancelDuring := cancel }
    | _ => none
  else none

def outStr : Out → String
  | .nil => "nil" | .ctx => "ctx"
  | .er (.base i) => s!"e{i}"
  | .er (.fatal _) => "fatalwrapped"

def step (_ : Unit) (w : List String) : Option (Unit × String × List String) :=
  match w with
  | "retry" :: rate :: cancel :: items => do
    let rate ← rate.toInt?
    let items ← items.mapM parseItem
    let (pre, wc) ← (if cancel == "none" then some (false, none)
      else if cancel == "pre" then some (true, none)
      else if cancel.startsWith "w" then (cancel.drop 1).toString.toNat?.map (fun k => (false, some k))
      else none)
    let r := retry items pre wc 0 0 []
    if r.exhausted then some ((), "exhausted", ["exhausted"]) else
    let res := match r.result with | some n => toString n | none => "nil"
    let effRate : Int := if rate ≤ 0 then 300000000 else rate
    let tags := (if r.err == .ctx then ["cancelled"] else []) ++
      (if items.any (fun it => match it.err with | some (.fatal (.fatal _)) => true | _ => false) && (match r.err with | .er _ => true | _ => false) then ["nested_fatal"] else []) ++
      (if r.cs.length ≥ 31 then ["saturated"] else []) ++
      (if items.any (·.cancelDuring) then ["cancel_during_call"] else []) ++
      (if wc.isSome && r.err == .ctx then ["cancel_during_wait"] else []) ++
      (if rate ≤ 0 then ["default_rate"] else [])
    some ((), s!"res={res} err={outStr r.err} calls={r.calls} cs={fmtNats r.cs} rate={if r.cs.isEmpty then 0 else effRate}", tags)
  | ["calcobs", rate, c, d] => do
    let rate ← rate.toInt?
    let c ← c.toNat?
    let d ← d.toInt?
    some ((), if validDelay rate c d then "ok" else "bad", if c ≥ 31 then ["c_ge_31"] else [])
  | ["unpack", d, i] => do
    let d ← d.toNat?
    let i ← i.toNat?
    some ((), s!"{outStr (.er (unpack (wrap d (.base i))))} fatal={isFatal (wrap d (.base i))}", [])
  | _ => none

def fam : Fam := { init := (), step := step }
end BB.Oracle.RetryFam
