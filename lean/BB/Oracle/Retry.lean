import BB.Oracle.Util
import BB.Model.Retry

namespace BB.Oracle.RetryFam
open BB.Retry BB.Oracle

def parseItem (w : String) : Option Item :=
  let cancel := w.endsWith "!"
  let w := if cancel then (w.dropEnd 1).toString else w
  if w.startsWith "o" then
    match (w.drop 1).toString.toNat? with
    | some r => some { result := some r, err := none, cancelDuring := cancel }
    | none => none
  else if w.startsWith "e" then
    -- e<id> or e<id>:<partial result>
    match (w.drop 1).toString.splitOn ":" with
    | [i] => (i.toNat?).map fun i => { result := none, err := some (.base i), cancelDuring := cancel }
    | [i, r] => do
      let i ← i.toNat?
      let r ← r.toNat?
      some { result := some r, err := some (.base i), cancelDuring := cancel }
    | _ => none
  else if w.startsWith "f" || w.startsWith "F" then   -- F: the payload wraps another error (same model: the payload is opaque)
    match (w.drop 1).toString.splitOn ":" with
    | [d, i, r] => do
      let d ← d.toNat?
      let i ← i.toNat?
      let r := r.toNat?
      some { result := r, err := some (wrap d (.base i)), cancelDuring := cancel }
    | _ => none
  else none

def outStr : Out → String
  | .nil => "nil" | .ctx => "ctx"
  | .er (.base i) => s!"e{i}"
  | .er (.fatal _) => "fatalwrapped"

def step (_ : Unit) (w : List String) : Option (Unit × String × List String) :=
  match w with
  | "retry" :: rate :: cancel :: allItems => do
    let rate ← rate.toInt?
    let items ← (allItems.takeWhile (· != "|")).mapM parseItem
    let second := allItems.contains "|"
    let items2 ← ((allItems.dropWhile (· != "|")).drop 1).mapM parseItem
    let (pre, wc) ← (if cancel == "none" then some (false, none)
      else if cancel == "pre" then some (true, none)
      else if cancel.startsWith "w" then (cancel.drop 1).toString.toNat?.map (fun k => (false, some k))
      else none)
    let r := retry items pre wc 0 0 []
    if r.exhausted then some ((), "exhausted", ["exhausted"]) else
    let res := match r.result with | some n => toString n | none => "nil"
    let effRate : Int := if rate ≤ 0 then 300000000 else rate
    let tags := (if r.err == .ctx then ["cancelled"] else []) ++
      (if items.any (fun it => match it.err with | some (.fatal (.fatal _)) => true | _ => false) && (match r.err with | .er _ => true | _ => false) then ["nested_fatal"] else []) ++
      (if r.cs.length ≥ 31 then ["saturated"] else []) ++
      (if items.any (·.cancelDuring) then ["cancel_during_call"] else []) ++
      (if wc.isSome && r.err == .ctx then ["cancel_during_wait"] else []) ++
      (if rate ≤ 0 then ["default_rate"] else []) ++
      (if items.any (fun it => it.result.isSome && (match it.err with | some (.base _) => true | _ => false)) && r.err == .ctx then ["partial_result_discarded_on_cancel"] else []) ++
      (if allItems.any (·.startsWith "F") then ["payload_wraps_another_error"] else [])
    let first := s!"res={res} err={outStr r.err} calls={r.calls} cs={fmtNats r.cs} rate={if r.cs.isEmpty then 0 else effRate}"
    if !second then some ((), first, tags) else
    -- the same returned function invoked again: a fresh counter; the context stays cancelled if it was
    let ctxCancelled := pre || r.err == .ctx || (items.take r.calls).any (·.cancelDuring)
    let r2 := retry items2 ctxCancelled none 0 0 []
    if r2.exhausted then some ((), first ++ " | exhausted", tags) else
    let res2 := match r2.result with | some n => toString n | none => "nil"
    some ((), first ++ s!" | res={res2} err={outStr r2.err} calls={r2.calls} cs={fmtNats r2.cs}", tags ++ ["second_invocation"])
  | ["calcobs", rate, c, d] => do
    let rate ← rate.toInt?
    let c ← c.toNat?
    let d ← d.toInt?
    some ((), if validDelay rate c d then "ok" else "bad", if c ≥ 31 then ["c_ge_31"] else [])
  | ["unpackw", d, i] => do
    let d ← d.toNat?
    let i ← i.toNat?
    some ((), s!"{outStr (.er (unpack (wrap d (.base i))))} fatal={isFatal (wrap d (.base i))}", ["payload_wraps_another_error"])
  | ["unpack", d, i] => do
    let d ← d.toNat?
    let i ← i.toNat?
    some ((), s!"{outStr (.er (unpack (wrap d (.base i))))} fatal={isFatal (wrap d (.base i))}", [])
  | _ => none

def fam : Fam := { init := (), step := step }
end BB.Oracle.RetryFam
