import BB.Oracle.Util
import BB.Model.Buffer

namespace BB.Oracle.BufferFam
open BB.Buffer BB.Oracle

structure S where
  st : St := {}
  closeInit : List Bool := []     -- explicit Close issued per consumer
  bufCloseInit : Bool := false
  shifted : Bool := false         -- some clean step removed something

def errStr : Err → String
  | .canceled => "canceled" | .unknownConsumer => "unknown" | .past => "past"
  | .nothingToCommit => "nocommit" | .nothingToRollback => "norollback"

def optErr : Option Err → String
  | none => "ok"
  | some e => "err " ++ errStr e

def stateStr (s : St) : String :=
  let cs := (List.range s.cons.length).map fun i =>
    match s.cons[i]? with
    | some k => if k.registered then s!"{i}:{k.committed}:{k.delta}" else s!"{i}:x:{k.delta}"
    | none => "?"
  s!"base={s.base} len={s.buf.length} cons=[" ++ ",".intercalate cs ++ "]"

def cbOf (w : String) : Option Cb :=
  match w with
  | "c" => some .continue_ | "s" => some .stop | "p" => some .panic | "G" => some .take
  | _ => if w.startsWith "P" then ((w.drop 1).toString.toNat?).map Cb.put else none

def endStr : RangeEnd → String
  | .getErr e => "err:" ++ errStr e
  | .blocked => "blocked"
  | .commitErr e => "err:" ++ errStr e
  | .stopped => "stopped"
  | .panicked => "panicked"
  | .diffStop => "diffstop"
  | .scriptEnd => "scriptend"

def anyDelta (s : St) : Bool := s.cons.any fun k => k.registered && k.delta > 0

def cleanRes (x : S) (k : Int) (s' : St) : S × String × List String :=
  let s := x.st
  let moved := s'.base > s.base
  let tags := (if moved && anyDelta s then ["shift_with_delta"] else []) ++
    (if moved && (s.cons.any fun c => c.registered && c.committed + c.delta < s'.base) then ["evict_unread"] else []) ++
    (if moved then ["shift"] else []) ++
    (if (offsets s).any (· < 0) && (offsets s).any (· == 0) then ["offs_neg_and_zero"] else [])
  ({ x with st := s', shifted := x.shifted || moved },
   s!"size={s.buf.length} offs={fmtInts (sortInts (offsets s))} ret={k}", tags)

def step (x : S) (w : List String) : Option (S × String × List String) :=
  let s := x.st
  let fin (x : S) (r : String) (tags : List String) : Option (S × String × List String) :=
    some ({ x with st := settle x.st }, r, tags)
  match w with
  | ["new"] =>
    let (s', e) := newConsumer s
    fin { x with st := s', closeInit := if e.isNone then x.closeInit ++ [false] else x.closeInit } (optErr e)
      (if x.shifted && e.isNone then ["cons_after_shift"] else [])
  | "putflipres" :: res :: vs =>
    -- a Put whose context was cancelled right after its up-front check: the implementation may report either outcome; a Put that
    -- reports success has appended (one atomic append), one that reports failure has appended NOTHING (C01) — the state
    -- line that follows compares the contents
    match vs.mapM String.toNat? with
    | none => none
    | some vs =>
      let (s', e) := put s vs
      if res == "ok" then
        if e.isNone then fin { x with st := s' } "ok" ["put_with_late_cancel_succeeded"]
        else fin x "rejected: Put reported success on a closed buffer" []
      else fin x "ok" ["put_with_late_cancel_failed"]
  | "put" :: vs =>
    match vs.mapM String.toNat? with
    | none => none
    | some vs =>
      let (s', e) := put s vs
      fin { x with st := s' } (optErr e) (if vs.length ≥ 2 then ["batch2"] else [])
  | ["get", c] => do
    let c ← c.toNat?
    let (s', r) := get s c
    match r with
    | .val v => fin { x with st := s' } s!"val {v}" (if x.shifted then ["get_after_shift"] else [])
    | .pending => fin x "blocked" ["get_blocked"]
    | .err e => fin x ("err " ++ errStr e) (if e = .past then ["past_error"] else [])
  | ["commit", c] => do
    let c ← c.toNat?
    let (s', e) := commit s c
    fin { x with st := s' } (optErr e) (if e.isNone then ["commit_ok"] else [])
  | ["rollback", c] => do
    let c ← c.toNat?
    let d := match s.cons[c]? with | some k => k.delta | none => 0
    let (s', e) := rollback s c
    fin { x with st := s' } (optErr e) (if e.isNone && d ≥ 2 then ["rollback_d2"] else [])
  | ["closec", c] => do
    let c ← c.toNat?
    if x.closeInit[c]? = some true then fin x "err once" ["close_twice"]
    else
      let s' := settle (cancelCons s c)
      let r := match s'.cons[c]? with
        | some k => if k.registered then "waiting" else "ok"
        | none => "?"
      fin { x with st := s', closeInit := x.closeInit.set c true } r (if r = "waiting" then ["close_waiting"] else [])
  | ["closebuf"] =>
    if x.bufCloseInit then fin x "err once" ["close_twice"]
    else
      let s' := settle (closeBuf s)
      let r := if s'.cons.any (·.registered) then "waiting" else "ok"
      fin { x with st := s', bufCloseInit := true } r (if r = "waiting" then ["bufclose_waiting"] else ["bufclose"])
  | ["clean", k] => do
    let k ← k.toInt?
    some (cleanRes x k (clean s k))
  | ["cleandef"] =>
    let (s', k) := cleanDefault s
    some (cleanRes x k s')
  | ["cleanfix", m, t] => do
    let m ← m.toInt?
    let t ← t.toInt?
    let (s', k) := cleanFixed s m t
    let (x', r, tags) := cleanRes x k s'
    some (x', r, tags ++ (if (s.buf.length : Int) > m then ["fixed_forced"] else []) ++ (if t > m then ["target_gt_max"] else []))
  | ["slice"] => some (x, fmtNats s.buf, [])
  | ["size"] => some (x, toString (size s), [])
  | ["diff", c] => do
    let c ← c.toNat?
    match diff s c with
    | none => some (x, "none", [])
    | some d => some (x, toString d, if d > (size s : Int) then ["diff_gt_size"] else [])
  | "range" :: c :: cbs => do
    let c ← c.toNat?
    let cbs ← cbs.mapM cbOf
    let (s', vis, e) := range false c (cbs ++ [.stop]) s []
    -- the calls Range makes on the consumer, in order (g = Get, c = Commit, r = Rollback): one Get+Commit per value whose
    -- callback returned normally; a Rollback only after a failed Get, a panic or a failed Commit — never after a success
    let n := vis.length
    let calls := match e with
      | .stopped | .scriptEnd | .diffStop => String.join (List.replicate n "gc")
      | .panicked => String.join (List.replicate (n - 1) "gc") ++ "gr"
      | .commitErr _ => String.join (List.replicate (n - 1) "gc") ++ "gcr"
      | .getErr _ | .blocked => String.join (List.replicate n "gc") ++ "gr"
    fin { x with st := s' } s!"vis={fmtNats vis} end={endStr e} calls={calls}" (["range_" ++ endStr e] ++ (if cbs.any (fun c => match c with | .put _ => true | _ => false) then ["range_put_in_callback"] else []))
  | "brange" :: c :: cbs => do
    let c ← c.toNat?
    let cbs ← cbs.mapM cbOf
    let (s', vis, e) := bufferRange c (cbs ++ [.stop]) s
    fin { x with st := s' } s!"vis={fmtNats vis} end={endStr e}" (["brange_" ++ endStr e] ++ (if cbs.any (fun c => match c with | .put _ => true | _ => false) then ["brange_put_in_callback"] else []) ++ (if cbs.any (· == .take) then ["brange_consumer_advanced_in_callback"] else []))
  | ["state"] => some (x, stateStr s, [])
  | _ => none

def fam : Fam := { init := ({} : S), step := step }

end BB.Oracle.BufferFam
