import BB.Oracle.Util
import BB.Model.Cleanup

namespace BB.Oracle.CleanGateFam
open BB.Cleanup BB.Oracle

def runActs (cfg : Cfg) (s : St) : List Act → St
  | [] => s
  | a :: as => match step cfg s a with
    | some s' => runActs cfg s' as
    | none => runActs cfg s as          -- a step that is not enabled in this schedule is skipped

/-- a fair scheduler after the workload went quiet: cleanup goroutine, timer goroutine and timer expiry in turn -/
def drain (cfg : Cfg) : Nat → St → St
  | 0, s => s
  | n + 1, s => drain cfg n (runActs cfg s [.cgStep, .tgStep, .fire])

def reclaim (cd window : String) (parked : Bool) : Option (Unit × String × List String) := do
    let cd ← cd.toNat?
    let cfg : Cfg := { cooldown := cd > 0 }
    -- idle cleaner: it has evaluated and parked, no timer armed
    let idle : St := { cg := .parked, bm := .free }
    let s :=
      match window with
      | "idle" => runActs cfg idle [.change true, .quiesce]
      | "cooldown" =>
        -- an operation starts a cooldown; the final change lands inside it
        runActs cfg idle [.change false, .cgStep, .cgStep, .cgStep, .change true, .quiesce]
      | _ =>
        -- held: the cleanup goroutine records the pending change (flag) and is held before parking until the timer fired
        runActs cfg idle [.change false, .cgStep, .cgStep, .cgStep, .change true, .quiesce, .cgStep, .cgStep, .fire, .tgStep]
    let final := drain cfg 12 s
    some ((), s!"size={if final.dirty then 3 else 0} backlog=0",
      [s!"window_{window}"] ++ (if window == "held" then ["rebroadcast_vs_park_window"] else []) ++ (if cd == 0 then ["cooldown_zero"] else []) ++
      (if parked then ["getters_parked_on_same_cond"] else []))

def stepF (_ : Unit) (w : List String) : Option (Unit × String × List String) :=
  match w with
  | ["reclaim", cd, _event, window] => reclaim cd window false
  -- consumers parked in a blocking Get share the condition variable but not the cleaner's state: same prediction
  | ["reclaim", cd, _event, window, _parked] => reclaim cd window true
  | _ => none

def fam : Fam := { init := (), step := stepF }
end BB.Oracle.CleanGateFam
