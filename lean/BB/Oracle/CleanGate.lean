import BB.Oracle.Util
import BB.Model.Cleanup
import BB.Model.Buffer

namespace BB.Oracle.CleanGateFam
open BB.Cleanup BB.Oracle

def runActs (cfg : Cfg) (s : St) : List Act → St
  | [] => s
  | a :: as => match step cfg s a with
    | some s' => runActs cfg s' as
    | none => runActs cfg s as          -- a step that is not enabled in this schedule is skipped

/-- a fair scheduler after the workload went quiet: cleanup goroutine, timer goroutine and timer expiry in turn -/
def drain (cfg : Cfg) : Nat → St → St
  | 0, s => s
  | n + 1, s => drain cfg n (runActs cfg s [.cgStep, .tgStep, .fire])

def reclaim (cd window : String) (parked : Bool) : Option (Unit × String × List String) := do
    let cd ← cd.toNat?
    let cfg : Cfg := { cooldown := cd > 0 }
    -- idle cleaner: it has evaluated and parked, no timer armed
    let idle : St := { cg := .parked, bm := .free }
    let s :=
      match window with
      | "idle" => runActs cfg idle [.change true, .quiesce]
      | "cooldown" =>
        -- an operation starts a cooldown; the final change lands inside it
        runActs cfg idle [.change false, .cgStep, .cgStep, .cgStep, .change true, .quiesce]
      | _ =>
        -- held: the cleanup goroutine records the pending change (flag) and is held before parking until the timer fired
        runActs cfg idle [.change false, .cgStep, .cgStep, .cgStep, .change true, .quiesce, .cgStep, .cgStep, .fire, .tgStep]
    let final := drain cfg 12 s
    some ((), s!"size={if final.dirty then 3 else 0} backlog=0",
      [s!"window_{window}"] ++ (if window == "held" then ["rebroadcast_vs_park_window"] else []) ++ (if cd == 0 then ["cooldown_zero"] else []) ++
      (if parked then ["getters_parked_on_same_cond"] else []))

def stepF (_ : Unit) (w : List String) : Option (Unit × String × List String) :=
  match w with
  | ["fixedbehind", _] =>
    -- L1 model of the scenario: Put 1..4, four Gets, Put 5, the forced trim (size 5 > 4 -> 5 - 4 = 1), Commit, then the cleaner
    -- evaluated once more on the committed state (the premise of C04 holds: the only consumer has committed past the head)
    let s0 := (BB.Buffer.newConsumer BB.Buffer.init).1
    let s1 := (BB.Buffer.put s0 [1, 2, 3, 4]).1
    let s2 := (List.range 4).foldl (fun s _ => (BB.Buffer.get s 0).1) s1
    let s3 := (BB.Buffer.cleanFixed (BB.Buffer.put s2 [5]).1 4 4).1
    let s4 := (BB.Buffer.commit s3 0).1
    let s5 := (BB.Buffer.cleanFixed s4 4 4).1
    some ((), s!"size={BB.Buffer.size s5}", ["commit_behind_the_head_after_forced_trim"])
  | ["fixednocons", _, _] =>
    -- the forced trim needs no consumer: in the L1 model, 45 single Puts into a buffer without registered consumers, the fixed
    -- cleaner (max 10, target 4) evaluated after the last one (C04: every change is followed by an evaluation) leaves ≤ 10
    let s1 := (List.range 45).foldl (fun s i => (BB.Buffer.put s [100 + i]).1) BB.Buffer.init
    let s2 := (BB.Buffer.cleanFixed s1 10 4).1
    some ((), s!"size_le_max={decide (BB.Buffer.size s2 ≤ 10)}", ["forced_trim_without_consumers"])
  | ["busy", _] =>
    -- BB.Props.C04 (pending_evaluation / at_most_one_expiry): a change recorded during a cooldown is evaluated at its expiry, whether
    -- or not further changes keep arriving; five cooldowns of uninterrupted activity therefore see at least two cleanups
    some ((), "reclaimed_during_activity=1", ["sustained_activity"])
  | ["reclaim", cd, _event, window] => reclaim cd window false
  -- consumers parked in a blocking Get share the condition variable but not the cleaner's state: same prediction
  | ["reclaim", cd, _event, window, _parked] => reclaim cd window true
  | _ => none

def fam : Fam := { init := (), step := stepF }
end BB.Oracle.CleanGateFam
