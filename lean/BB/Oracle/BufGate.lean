import BB.Oracle.Util
import BB.Model.Buffer

namespace BB.Oracle.BufGateFam
open BB.Buffer BB.Oracle

def errStr : Err → String
  | .canceled => "canceled" | .unknownConsumer => "unknown" | .past => "past"
  | .nothingToCommit => "nocommit" | .nothingToRollback => "norollback"

/-- the outcome of a blocking Get in the L1 model: whatever the window, the event is one critical section
    that happens before the Get's (re-)evaluation under the buffer lock, so the Get sees its effect;
    a Get that would block forever ends when its own context is cancelled -/
def getResult (s : St) (ctxCancelled : Bool) : St × String :=
  match get s 0 with
  | (s', .val v) => (s', s!"val:{v}")
  | (_, .pending) => (s, if ctxCancelled then "err:canceled" else "hang")
  | (_, .err e) => (s, "err:" ++ errStr e)

def stepF (_ : Unit) (w : List String) : Option (Unit × String × List String) :=
  match w with
  | ["bg", event, window] =>
    let s0 := (newConsumer init).1
    let (s1, cancelled) := match event with
      | "put" => ((put s0 [1]).1, false)
      | "cancel" => (s0, true)
      | "closebuf" => (settle (closeBuf s0), false)
      | "closecons" => (settle (cancelCons s0 0), false)   -- (for window `before`; otherwise applied after the Get, same final state)
      | _ => (s0, false)
    -- consumer.Close needs the consumer mutex, which a Get holds for its whole duration: a Close issued while the
    -- Get is in progress takes effect only after the Get has returned (the documented proviso of C12), so the
    -- blocked Get does not see it and stays blocked until its own context is cancelled by the harness
    let closeAfterGet := event == "closecons" && window != "before"
    let (s2, first) := if closeAfterGet then (s1, "hang") else getResult s1 cancelled
    let s1 := s2
    let s3 := (put s2 [99]).1
    let (_, next) := getResult s3 false
    some ((), s!"first={first} next={next}", [s!"{event}_{window}"] ++
      (if window == "wait" || window == "spawn" || window == "start" then ["event_between_check_and_park"] else []))
  | ["capwake", n] => do
    -- L1 model: after Put 1, n Gets, Put 2 and the forced trim of one value (FixedBufferCleaner(1,1): size 2 > 1 -> 2 - 1),
    -- every consumer's next read is the value 2: all n parked Gets return it
    let n ← n.toNat?
    let s0 := (List.range n).foldl (fun s _ => (newConsumer s).1) init
    let s1 := (put s0 [1]).1
    let s2 := (List.range n).foldl (fun s c => (get s c).1) s1
    let s3 := (put s2 [2]).1
    let s4 := (cleanFixed s3 1 1).1
    let woken := ((List.range n).filter fun c => match get s4 c with | (_, .val 2) => true | _ => false).length
    some ((), s!"woken={woken} hung={n - woken}", ["wakeup_with_unchanged_size"])
  | ["nilwake", mode] =>
    -- values are opaque to the buffer (L1 model: any `Nat`); the nil interface value is the model value 0: a Get whose position
    -- holds it returns it like any other value, parked or not
    let rd (s : St) : St × String := match get s 0 with
      | (s', .val v) => (s', if v == 0 then "nil" else toString v)
      | (_, .pending) => (s, "hang")
      | (_, .err e) => (s, "err:" ++ errStr e)
    let s0 := (newConsumer init).1
    let (s1, first) := rd (put s0 [0]).1
    let s2 := (commit s1 0).1
    let s3 := (put s2 [1, 0, 2]).1
    let (s4, r1) := rd s3
    let (s5, r2) := rd s4
    let (_, r3) := rd s5
    some ((), s!"woke={first} reads={r1},{r2},{r3}", ["nil_value_" ++ mode])
  | _ => none

def fam : Fam := { init := (), step := stepF }
end BB.Oracle.BufGateFam
