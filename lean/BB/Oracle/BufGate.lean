import BB.Oracle.Util
import BB.Model.Buffer

namespace BB.Oracle.BufGateFam
open BB.Buffer BB.Oracle

def errStr : Err → String
  | .canceled => "canceled" | .unknownConsumer => "unknown" | .past => "past"
  | .nothingToCommit => "nocommit" | .nothingToRollback => "norollback"

/-- the outcome of a blocking Get in the L1 model: whatever the window, the event is one critical section
    that happens before the Get's (re-)evaluation under the buffer lock, so the Get sees its effect;
    a Get that would block forever ends when its own context is cancelled -/
def getResult (s : St) (ctxCancelled : Bool) : St × String :=
  match get s 0 with
  | (s', .val v) => (s', s!"val:{v}")
  | (_, .pending) => (s, if ctxCancelled then "err:canceled" else "hang")
  | (_, .err e) => (s, "err:" ++ errStr e)

def stepF (_ : Unit) (w : List String) : Option (Unit × String × List String) :=
  match w with
  | ["bg", event, window] =>
    let s0 := (newConsumer init).1
    let (s1, cancelled) := match event with
      | "put" => ((put s0 [1]).1, false)
      | "cancel" => (s0, true)
      | "closebuf" => (settle (closeBuf s0), false)
      | "closecons" => (settle (cancelCons s0 0), false)   -- (for window `before`; otherwise applied after the Get, same final state)
      | _ => (s0, false)
    -- consumer.Close needs the consumer mutex, which a Get holds for its whole duration: a Close issued while the
    -- Get is in progress takes effect only after the Get has returned (the documented proviso of C12), so the
    -- blocked Get does not see it and stays blocked until its own context is cancelled by the harness
    let closeAfterGet := event == "closecons" && window != "before"
    let (s2, first) := if closeAfterGet then (s1, "hang") else getResult s1 cancelled
    let s1 := s2
    let s3 := (put s2 [99]).1
    let (_, next) := getResult s3 false
    some ((), s!"first={first} next={next}", [s!"{event}_{window}"] ++
      (if window == "wait" || window == "spawn" || window == "start" then ["event_between_check_and_park"] else []))
  | _ => none

def fam : Fam := { init := (), step := stepF }
end BB.Oracle.BufGateFam
