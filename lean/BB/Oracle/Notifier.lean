import BB.Oracle.Util
import BB.Model.Notifier

namespace BB.Oracle.NotifierFam
open BB.Notifier BB.Oracle

/-- element classes: 0 any, 1 int, 2 *int, 3 error, 4 named slice type (`type namedSlice []int`), 5 []int,
    6 `<-chan int`; value tokens: nil, int=k, pint=k, perr=k, sl=k ([]int), nsl=k (namedSlice), ch=k (chan int).
    Go assignability: identical types; anything to `any`; implementers to `error`; identical underlying types
    when one side is not a named type ([]int <-> namedSlice); a bidirectional channel to a directional one. -/
def accepts (val : String) (elem : Nat) : Bool :=
  if val == "nil" then elem != 1
  else if val.startsWith "int=" then elem == 0 || elem == 1
  else if val.startsWith "pint=" then elem == 0 || elem == 2
  else if val.startsWith "perr=" then elem == 0 || elem == 3
  else if val.startsWith "sl=" then elem == 0 || elem == 4 || elem == 5
  else if val.startsWith "nsl=" then elem == 0 || elem == 4 || elem == 5
  else if val.startsWith "ch=" then elem == 0 || elem == 6
  else false

def payload (val : String) : String := ((val.splitOn "=").getD 1 "")

/-- what the subscriber receives: the value converted to the element type -/
def recvTok (val : String) (elem : Nat) : String :=
  if val == "nil" then
    (if elem == 2 then "pint=nil" else if elem == 4 then "nsl=nil" else if elem == 5 then "sl=nil"
     else if elem == 6 then "rch=nil" else "nil")
  else if elem == 4 then "nsl=" ++ payload val
  else if elem == 5 then "sl=" ++ payload val
  else if elem == 6 then "rch=" ++ payload val
  else val

structure S where
  st : St := {}
  loop : Option Loop := none
  val : String := ""
  pubKey : Nat := 0
  awaitingOrder : Option (List Sub) := none
  exited : Bool := false

def elemOf (x : S) (id : Nat) : Nat :=
  match x.st.subs.find? (fun y => y.key == x.pubKey && y.id == id) with
  | some y => y.elem
  | none => 0

def parsePair (s : String) : Option (Nat × Bool) :=
  match s.splitOn ":" with
  | [a, b] => do let a ← a.toNat?; some (a, b == "1")
  | _ => none

def listOf (s : String) : List String := if s == "-" then [] else s.splitOn ","

def finishLoop (x : S) (l : Loop) : S :=
  if l.succ.isEmpty then { x with loop := none } else { x with loop := some l }

def step (x : S) (w : List String) : Option (S × String × List String) :=
  match w with
  | ["sub", id, key, elem, ctx] => do
    let id ← id.toNat?; let key ← key.toNat?; let elem ← elem.toNat?
    match subscribe x.st { key := key, id := id, elem := elem, hasCtx := ctx == "1" } with
    | none => some (x, "panic", ["dup_sub"])
    | some s' => some ({ x with st := s' }, "ok", [])
  | ["dupsub", id] => do
    -- a duplicate subscription (same key and channel, another context) is rejected and changes nothing: the subscription that
    -- exists keeps its own context
    let id ← id.toNat?
    if x.st.subs.any (·.id == id) then some (x, "panic", ["dup_sub_other_ctx"]) else some (x, "ok-undone", [])
  | ["unsub", id, key] => do
    let id ← id.toNat?; let key ← key.toNat?
    match unsubscribe x.st key id with
    | none => some (x, "panic", ["bad_unsub"])
    | some s' => some ({ x with st := s' }, "ok", ["unsub"])
  | ["cancelsub", id] => do
    let id ← id.toNat?
    let st' := { x.st with subs := x.st.subs.map (fun y => if y.id == id then { y with ctxCancelled := true } else y) }
    match x.loop with
    | none => some ({ x with st := st' }, "ok", ["cancel_before"])
    | some l =>
      match l.fail.idxOf? id with
      | none => some ({ x with st := st' }, "ok idle", [])
      | some i =>
        match iter l (l.exitN + i) with
        | .continue_ l' => some (finishLoop { x with st := st' } l', "ok fired",
            ["ctx_fired"] ++ (if i + 1 < l.fail.length && i > 0 then ["middle_guard_cancelled"] else []) ++
            (if l.succ.length ≥ 3 then ["cancel_among_3"] else []))
        | _ => none
  | ["pub", key, val, ctx, pre] => do
    let key ← key.toNat?
    if pre == "1" && ctx == "1" then some (x, "returned", ["pub_precancelled"]) else
    let el := eligible x.st key (accepts val)
    if el.isEmpty then some (x, "returned", ["pub_no_eligible"])
    else some ({ x with awaitingOrder := some el, val := val, pubKey := key,
                        loop := some { exitN := if ctx == "1" then 1 else 0, succ := [], fail := [], refs := [] }, exited := false },
               "started", (if val == "nil" then ["nil_value"] else []) ++
                 (if (x.st.subs.filter (fun y => y.key == key)).length > el.length then ["some_ineligible"] else []))
  | ["order", ids] => do
    let pairs ← (listOf ids).mapM parsePair
    match x.awaitingOrder, x.loop with
    | some el, some l0 =>
      -- the observed order must be a permutation of the eligible set, with the right context flags
      let want := sortInts (el.map (fun y => (y.id : Int) * 2 + (if y.hasCtx then 1 else 0)))
      let got := sortInts (pairs.map (fun p => (p.1 : Int) * 2 + (if p.2 then 1 else 0)))
      if want == got then
        some ({ x with awaitingOrder := none, loop := some (build l0.exitN pairs) }, "ok",
          if pairs.length ≥ 3 then ["three_subs"] else [])
      else some (x, s!"bad eligible={want}", [])
    | _, _ => none
  | ["refs", refs, n] => do
    let refs ← (listOf refs).mapM String.toNat?
    match x.loop with
    | some l => some (x, if l.refs == refs && s!"n={l.succ.length}" == n then "ok" else s!"bad refs={fmtNats l.refs} n={l.succ.length}", [])
    | none => some (x, "bad nopublish", [])
  | ["recv", id] => do
    let id ← id.toNat?
    match x.loop with
    | none => some (x, "none", [])
    | some l =>
      match l.succ.idxOf? id with
      | none => some (x, "none", ["recv_not_pending"])
      | some j =>
        match iter l (l.exitN + l.fail.length + j) with
        | .continue_ l' => some (finishLoop x l', "val " ++ recvTok x.val (elemOf x id), ["delivered"])
        | _ => none
  | ["cancelpub"] =>
    match x.loop with
    | some l => if l.exitN == 1 then some ({ x with loop := none, exited := true }, "ok", ["pub_cancelled"]) else some (x, "ok", [])
    | none => some (x, "ok", [])
  | ["done"] =>
    match x.loop with
    | none => some (x, "returned", [])
    | some _ => some (x, "blocked", ["done_blocked"])
  | ["state"] =>
    let keys := (x.st.subs.map (·.key)).eraseDups.length
    some (x, s!"keys={keys} subs={x.st.subs.length}", [])
  | _ => none

def fam : Fam := { init := ({} : S), step := step }
end BB.Oracle.NotifierFam
