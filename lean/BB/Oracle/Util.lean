/- Line-protocol plumbing shared by all oracle families (core Lean only). -/
namespace BB.Oracle

def cleanLine (s : String) : String := String.ofList (s.toList.filter (fun c => c != '\n' && c != '\r'))
def words (s : String) : List String := (s.splitOn " ").filter (· ≠ "")

def fmtInts (l : List Int) : String := "[" ++ ",".intercalate (l.map toString) ++ "]"
def fmtNats (l : List Nat) : String := "[" ++ ",".intercalate (l.map toString) ++ "]"

def insertSorted (x : Int) : List Int → List Int
  | [] => [x]
  | y :: ys => if x ≤ y then x :: y :: ys else y :: insertSorted x ys
def sortInts (l : List Int) : List Int := l.foldl (fun acc x => insertSorted x acc) []

def natArg (l : List String) (i : Nat) : Option Nat := (l[i]?).bind String.toNat?
def intArg (l : List String) (i : Nat) : Option Int := (l[i]?).bind String.toInt?

/-- A family: a model state, a step that predicts the canonical result of an operation line, and
    tags describing which interesting branches the case reached.  `none` = the oracle cannot
    interpret the line (reported as a mismatch, never defaulted). -/
structure Fam where
  {σ : Type}
  init : σ
  step : σ → List String → Option (σ × String × List String)

end BB.Oracle
