import BB.Oracle.Util
import BB.Model.Ctx
import BB.Model.CtxBuild

namespace BB.Oracle.CtxFam
open BB.Ctx BB.Oracle

/-- run every scheduled callback (and the waiter) until nothing is pending -/
def quiesceChain : Nat → Chain → Chain
  | 0, s => s
  | n + 1, s => if s.pendF > 0 then quiesceChain n (s.step .runF)
                else if s.pendHook > 0 then quiesceChain n (s.step .runHook) else s

def quiesceCombine : Nat → Combine → Combine
  | 0, s => s
  | n + 1, s => if s.pendCancel > 0 then quiesceCombine n (s.step .runCancel)
                else if s.pendStop > 0 then quiesceCombine n (s.step .runStop) else s

def quiesceConfl : Nat → Conflated → Conflated
  | 0, s => s
  | n + 1, s =>
    match (List.range s.chains.length).find? (fun i => match s.chains[i]? with | some c => c.pendF > 0 | none => false) with
    | some i => quiesceConfl n (s.step (.runF i))
    | none =>
      match (List.range s.chains.length).find? (fun i => match s.chains[i]? with | some c => c.pendHook > 0 | none => false) with
      | some i => quiesceConfl n (s.step (.runHook i))
      | none => if s.wg == 0 && !s.waiterExited then quiesceConfl n (s.step .waiter) else s


def parseIn : String → Option In
  | "n" => some .nil | "b" => some .never | "0" => some .live | "1" => some .dead | "d" => some .dead | _ => none

def parseNats (s : String) : Option (List Nat) :=
  if s == "-" then some [] else (s.splitOn ",").mapM String.toNat?

/-- trigger words `p=1,2` (during the primary's Err) and `3=0,1` (during the Err of position 3) -/
def parseTrig (ws : List String) : Option (List Nat × (Nat → List Nat)) :=
  ws.foldlM (fun (acc : List Nat × (Nat → List Nat)) w =>
    match w.splitOn "=" with
    | ["p", ks] => do let ks ← parseNats ks; some (acc.1 ++ ks, acc.2)
    | [j, ks] => do
      let j ← j.toNat?
      let ks ← parseNats ks
      some (acc.1, fun i => if i = j then acc.2 i ++ ks else acc.2 i)
    | _ => none) ([], fun _ => [])

def splitSlash (ws : List String) : List String × List String :=
  (ws.takeWhile (· ≠ "/"), (ws.dropWhile (· ≠ "/")).drop 1)

/-- script position ↦ index among the registered others, for the later cancel operations (a never-cancellable input is
    registered but cannot be cancelled by the script) -/
def liveIdx (l : List In) : List (Option Nat) :=
  (l.foldl (fun (acc : List (Option Nat) × Nat) t =>
    if t = .nil then (acc.1 ++ [none], acc.2)
    else if t = .never then (acc.1 ++ [none], acc.2 + 1)
    else (acc.1 ++ [some acc.2], acc.2 + 1)) ([], 0)).1

def maskNever (l : List In) (idx : List (Option Nat)) : List (Option Nat) :=
  (List.range idx.length).map (fun i => if l[i]? = some .never then none else (idx[i]?).join)

inductive Obj
  | none
  | chain (s : Chain)
  | combineConst (err : Bool) (primNil : Bool := false)  -- result is the primary itself / an already cancelled child
  | combine (s : Combine) (idx : List (Option Nat)) (primNil : Bool)  -- idx: script position of each other -> live index
  | confl (s : Conflated) (idx : List (Option Nat))
  | conflConst

structure S where
  o : Obj := .none
  primC : Bool := false

def b01 (b : Bool) : String := if b then "1" else "0"

def step (x : S) (w : List String) : Option (S × String × List String) :=
  match w with
  | ["now", d] =>
    -- the result's state at the instant the constructor returned: determined when the constructor returned the primary itself or
    -- an already-finished child; otherwise a callback may or may not have run yet
    match x.o with
    | .combineConst e _ => if (d == "1") == e then some (x, "ok", ["immediate_state_checked"]) else
        some (x, s!"rejected: at return the result reported err={d}, the pre-check decides err={b01 e} there and then", [])
    | _ => some (x, "ok", [])
  | ["chainstorm", n] => do
    -- BB.Props.C16.chain_exactly_once: for every order of the two cancellations and of the two hooks, f is called exactly once
    let n ← n.toNat?
    some (x, s!"once={n} never=0 twice=0", ["chain_storm"])
  | ["mkchain", o, c] =>
    let s := quiesceChain 10 (Chain.init (o == "1") (c == "1"))
    some ({ o := .chain s }, s!"calls={s.calls}", if o == "1" && c == "1" then ["both_pre"] else [])
  | ["mkchainw", o, c] =>
    let s := quiesceChain 10 (Chain.init (o == "1") (c == "1"))
    some ({ o := .chain s }, s!"calls={s.calls}", (if o == "1" && c == "1" then ["both_pre"] else []) ++ ["chain_over_wrapper_context"])
  | ["cancel", which] =>
    match x.o with
    | .chain s =>
      let s' := match which with
        | "other" => s.step .cancelOther
        | "ctx" => s.step .cancelCtx
        | _ => (s.step .cancelOther).step .cancelCtx      -- both, before any callback runs
      let s'' := quiesceChain 10 s'
      some ({ x with o := .chain s'' }, s!"calls={s''.calls}", if which == "both" then ["simultaneous"] else [])
    | _ => none
  | "mkcombinet" :: prim :: rest => do
    -- construction with cancellations landing during the constructor's Err() calls
    let (otoks, ttoks) := splitSlash rest
    let prim ← parseIn prim
    let others ← otoks.mapM parseIn
    let (tp, tr) ← parseTrig ttoks
    match combineBuild { prim := prim, others := others } tp tr with
    | .same x' => some ({ o := .combineConst (x'.prim == .dead) (prim == .nil || prim == .never), primC := x'.prim == .dead },
        s!"err={b01 (x'.prim == .dead)}", ["build_same"] ++ (if x'.prim == .dead && prim == .live then ["primary_cancelled_during_build"] else []))
    | .cancelledChild _ => some ({ o := .combineConst true (prim == .nil || prim == .never) }, "err=1", ["build_precheck_saw_cancel"])
    | .wired x' n pre =>
      let s0 := quiesceCombine 40 ((Combine.init n).run pre)
      some ({ o := .combine s0 (liveIdx x'.others) (prim == .nil || prim == .never) }, s!"err={b01 s0.resultC}",
        (if pre.isEmpty then ["build_wired_clean"] else ["cancel_between_precheck_and_registration"]) ++
        (if others.any (· == .never) then ["never_other"] else []))
  | "mkconflatedt" :: rest => do
    let (itoks, ttoks) := splitSlash rest
    let inputs ← itoks.mapM parseIn
    let (_, tr) ← parseTrig ttoks
    match conflBuild inputs tr with
    | .allCancelled _ => some ({ o := .conflConst }, "err=1", ["all_pre"])
    | .wired l idx n pre =>
      let s0 := quiesceConfl 200 ((Conflated.init n).run pre)
      some ({ o := .confl s0 (maskNever l idx) }, s!"err={b01 s0.resultC}",
        (if pre.isEmpty then [] else ["input_cancelled_after_wiring_during_build"]) ++
        (if inputs.any (· == .never) then ["never_input"] else []) ++
        (if idx.any (· == none) && !ttoks.isEmpty then ["input_cancelled_before_its_check"] else []))
  | "mkcombine" :: prim0 :: others0 =>
    -- "d" = already past its deadline: finished like "1" (Err() = DeadlineExceeded instead of Canceled)
    let prim := if prim0 == "d" then "1" else prim0
    let others := others0.map (fun t => if t == "d" then "1" else t)
    if prim == "1" then some ({ o := .combineConst true, primC := true }, "err=1", ["primary_pre"])
    else if others.any (· == "1") then some ({ o := .combineConst true (prim == "n") }, "err=1", ["other_pre"])
    else
      let live := others.filter (· == "0")
      if live.isEmpty then some ({ o := .combineConst false (prim == "n") }, "err=0", ["no_others"])
      else
        -- map script index -> live index
        let idx := (others.foldl (fun (acc : List (Option Nat) × Nat) t =>
          if t == "0" then (acc.1 ++ [some acc.2], acc.2 + 1) else (acc.1 ++ [none], acc.2)) ([], 0)).1
        some ({ o := .combine (Combine.init live.length) idx (prim == "n") }, "err=0",
          (if others.any (· == "n") then ["nil_other"] else []) ++ (if prim == "n" then ["nil_primary"] else []))
  | ["cancelp"] =>
    match x.o with
    | .combineConst e pn => if pn then some (x, s!"err={b01 e}", []) else some ({ x with o := .combineConst true }, "err=1", [])
    | .combine s idx pn =>
      if pn then some (x, s!"err={b01 s.resultC}", []) else
      let s' := quiesceCombine 20 (s.step .cancelPrimary)
      some ({ x with o := .combine s' idx pn }, s!"err={b01 s'.resultC}", ["cancel_primary"])
    | _ => none
  | ["cancelo", i] => do
    let i ← i.toNat?
    match x.o with
    | .combineConst e _ => some (x, s!"err={b01 e}", [])
    | .combine s idx pn =>
      match idx[i]? with
      | some (some j) =>
        let s' := quiesceCombine 20 (s.step (.cancelOther j))
        some ({ x with o := .combine s' idx pn }, s!"err={b01 s'.resultC}", ["cancel_other"])
      | _ => some (x, s!"err={b01 s.resultC}", [])
    | _ => none
  | ["cancel2", i, j] => do   -- two others cancelled before any callback runs
    let i ← i.toNat?
    let j ← j.toNat?
    match x.o with
    | .combineConst e _ => some (x, s!"err={b01 e}", [])
    | .conflConst => some (x, "err=1", [])
    | .combine s idx pn =>
      let f (s : Combine) (k : Nat) : Combine := match idx[k]? with | some (some j) => s.step (.cancelOther j) | _ => s
      let s' := quiesceCombine 20 (f (f s i) j)
      some ({ x with o := .combine s' idx pn }, s!"err={b01 s'.resultC}", ["simultaneous"])
    | .confl s idx =>
      let f (s : Conflated) (k : Nat) : Conflated := match idx[k]? with | some (some j) => s.step (.cancelInput j) | _ => s
      let s' := quiesceConfl 100 (f (f s i) j)
      some ({ x with o := .confl s' idx }, s!"err={b01 s'.resultC}", ["simultaneous"])
    | _ => none
  | ["value"] =>
    match x.o with
    | .combineConst _ _ | .combine _ _ _ => some (x, "primary", [])
    | .confl _ _ | .conflConst => some (x, "first", [])
    | _ => none
  | "mkconflated" :: inputs0 =>
    let inputs := inputs0.map (fun t => if t == "d" then "1" else t)
    let live := inputs.filter (· == "0")
    if live.isEmpty then some ({ o := .conflConst }, "err=1", ["all_pre"])
    else
      let idx := (inputs.foldl (fun (acc : List (Option Nat) × Nat) t =>
          if t == "0" then (acc.1 ++ [some acc.2], acc.2 + 1) else (acc.1 ++ [none], acc.2)) ([], 0)).1
      some ({ o := .confl (Conflated.init live.length) idx }, "err=0", if inputs.any (· == "1") then ["some_pre"] else [])
  | ["canceli", i] => do
    let i ← i.toNat?
    match x.o with
    | .conflConst => some (x, "err=1", [])
    | .confl s idx =>
      match idx[i]? with
      | some (some j) =>
        let s' := quiesceConfl 100 (s.step (.cancelInput j))
        some ({ x with o := .confl s' idx }, s!"err={b01 s'.resultC}", if s'.resultC then ["all_inputs_cancelled"] else ["cancel_input"])
      | _ => some (x, s!"err={b01 s.resultC}", [])
    | _ => none
  | ["cancelfn"] =>
    match x.o with
    | .conflConst => some (x, "err=1", [])
    | .confl s idx =>
      let s' := quiesceConfl 100 (s.step .cancelFn)
      some ({ x with o := .confl s' idx }, s!"err={b01 s'.resultC}", ["cancelfn"])
    | _ => none
  | ["final"] => some (x, "goroutines=0", [])
  | _ => none

def fam : Fam := { init := ({} : S), step := step }
end BB.Oracle.CtxFam
