import BB.Oracle.Util
import BB.Model.Buffer

namespace BB.Oracle.BufConcFam
open BB.Buffer BB.Oracle

structure S where
  st : St := {}
  cleanerKind : Nat := 0
  rets : List (Nat × Nat) := []     -- (consumer, value) returned to callers, as logged
  shifted : Bool := false
  closedBuf : Bool := false

def kv (s : String) (k : String) : Option Int :=
  if s.startsWith (k ++ "=") then (s.drop (k.length + 1)).toString.toInt? else none

def rej (x : S) (why : String) : Option (S × String × List String) := some (x, "rejected: " ++ why, [])

def countOf (l : List (Nat × Nat)) (p : Nat × Nat) : Nat := (l.filter (· == p)).length

def step (x : S) (w : List String) : Option (S × String × List String) :=
  let s := x.st
  match w with
  | ["run", _, _, _, _, _, _] => some ({}, "ok", [])
  | ["config", c] => some ({ x with cleanerKind := if c == "cleaner=1" then 1 else 0 }, "ok", [])
  | ["put"] => some (x, "ok", [])        -- empty batch (not generated)
  | ["put", vs, n] => do
    let vs ← (vs.splitOn ",").mapM String.toNat?
    let n ← kv n "n"
    -- one Put = one critical section that appends the WHOLE batch
    if n != (vs.length : Int) then rej x s!"a Put of {vs.length} values appended {n} of them in one critical section (the batch is not atomic)" else
    let (s', e) := put s vs
    if e.isSome then rej x "Put appended although the buffer is closed" else
    some ({ x with st := s' }, "ok", if vs.length ≥ 2 then ["batch2"] else [])
  | ["putr", first, count, n] => do
    let first ← first.toNat?; let count ← count.toNat?
    let n ← kv n "n"
    if n != (count : Int) then rej x s!"a Put of {count} values appended {n} of them in one critical section (the batch is not atomic)" else
    let (s', e) := put s ((List.range count).map (· + first))
    if e.isSome then rej x "Put appended although the buffer is closed" else
    some ({ x with st := s' }, "ok", ["batch2", "large_batch"])
  | ["newconsumer", c, base] => do
    let c ← c.toNat?; let base ← kv base "base"
    if c != s.cons.length then rej x s!"consumer numbering: model has {s.cons.length}" else
    let (s', e) := newConsumer s
    if e.isSome then rej x "consumer registered although the buffer is closed" else
    if (s.base : Int) != base then rej x s!"new consumer registered at {base}, model base {s.base}" else
    some ({ x with st := s' }, "ok", if x.shifted then ["cons_after_shift"] else [])
  | ["getok", c, rel] => do
    let c ← c.toNat?; let rel ← kv rel "rel"
    match get s c with
    | (s', .val _) =>
      match s.cons[c]? with
      | some k =>
        if ((k.committed + k.delta : Nat) : Int) - (s.base : Int) != rel then rej x s!"relative index {rel}, model {(k.committed + k.delta : Nat) - s.base}"
        else some ({ x with st := s' }, "ok", if x.shifted then ["get_after_shift"] else [])
      | none => rej x "unknown consumer"
    | (_, .pending) => rej x "Get found a value where the model has none yet"
    | (_, .err _) => rej x "Get found a value where the model says error"
  | ["getpast", c] => do
    let c ← c.toNat?
    if getTry s c == .err .past then some (x, "ok", ["past_error"]) else rej x "Get reported a past offset, the model does not"
  | ["getpending", c] => do
    let c ← c.toNat?
    -- the consumer context is not part of the buffer-level check: compare the buffer-level outcome only
    match s.cons[c]? with
    | some k =>
      if k.registered && !s.closed && s.base ≤ k.committed + k.delta && (k.committed + k.delta - s.base) ≥ s.buf.length then some (x, "ok", ["get_pending"])
      else rej x "Get found nothing (pending) but the model has a value / an error for it"
    | none => rej x "unknown consumer"
  | ["commit", c, n] => do
    let c ← c.toNat?; let n ← kv n "committed"
    let (s', e) := commit s c
    if e.isSome then rej x "commit succeeded in the code but not in the model" else
    match s'.cons[c]? with
    | some k => if (k.committed : Int) == n then some ({ x with st := s' }, "ok", ["commit"]) else rej x s!"committed offset {n}, model {k.committed}"
    | none => rej x "unknown consumer"
  | ["committed", _] => some (x, "ok", [])
  | ["rollback", c] => do
    let c ← c.toNat?
    let d := match s.cons[c]? with | some k => k.delta | none => 0
    let (s', e) := rollback s c
    if e.isSome then rej x "rollback succeeded in the code but not in the model" else
    some ({ x with st := s' }, "ok", if d ≥ 2 then ["rollback_d2"] else ["rollback"])
  | ["diff", c, d] => do
    let c ← c.toNat?; let d ← kv d "d"
    match diff s c with
    | some m => if m == d then some (x, "ok", ["diff_concurrent"]) else rej x s!"Diff computed {d}, at that instant the model has {m} (torn read)"
    | none => rej x "Diff answered for a consumer that is not registered"
  | ["closecons", c] => do
    let c ← c.toNat?
    some ({ x with st := cancelCons s c }, "ok", [])
  | ["delete", c] => do
    let c ← c.toNat?
    match s.cons[c]? with
    | some k =>
      if k.delta != 0 then rej x "consumer deregistered with uncommitted reads" else
      some ({ x with st := setCons s c { k with registered := false, cancelled := true } }, "ok", ["consumer_closed"])
    | none => rej x "unknown consumer"
  | ["closebuf"] => some ({ x with st := closeBuf s, closedBuf := true }, "ok", [])
  | ["clean", k] => do
    let k ← k.toInt?
    let expected : Int := if x.cleanerKind == 1 then Cleaner.fixedCleaner 12 4 s.buf.length (offsets s)
                          else Cleaner.defaultCleaner s.buf.length (offsets s)
    if k != expected then rej x s!"cleaner returned {k}, model {expected} (size {s.buf.length}, offsets {offsets s})" else
    let s' := clean s k
    let moved := s'.base > s.base
    some ({ x with st := s', shifted := x.shifted || moved }, "ok",
      (if moved && (s.cons.any fun c => c.registered && c.delta > 0) then ["shift_with_delta"] else []) ++
      (if moved && (s.cons.any fun c => c.registered && c.committed + c.delta < s'.base) then ["evict_unread"] else []) ++
      (if moved then ["shift"] else []))
  | ["ret", c, v] => do
    let c ← c.toNat?; let v ← v.toNat?
    some ({ x with rets := (c, v) :: x.rets }, "ok", [])
  | ["final", base, len, first, _produced, reclaimed] => do
    if reclaimed != "reclaimed=1" then rej x "a reclaimable prefix was still there long after the workload went quiet" else
    let base ← kv base "base"; let len ← kv len "len"; let first ← kv first "first"
    -- every value returned to a caller is a read of the model (same consumer, same value, same multiplicity)
    let reads := s.reads.map fun r => (r.1, r.2.2)
    let okRets := x.rets.all fun p => countOf x.rets p ≤ countOf reads p
    if !okRets then rej x "a caller received a value that no Get event of the model explains" else
    -- … and the converse (C05: a failed Get consumes nothing): every value a Get obtained under the buffer lock was handed to
    -- the caller of that Get (all Gets have returned by now)
    let okReads := reads.all fun p => countOf reads p ≤ countOf x.rets p
    if !okReads then rej x "a Get obtained a value under the buffer lock but its caller got an error: a failed Get consumed a value" else
    if (s.base : Int) != base || (s.buf.length : Int) != len then rej x s!"final state: model base={s.base} len={s.buf.length}" else
    if first != (match s.buf.head? with | some v => (v : Int) | none => -1) then rej x "final buffer head differs" else
    some (x, "ok", if x.shifted then ["quiet_reclaim"] else [])
  | _ => none

def fam : Fam := { init := ({} : S), step := step }
end BB.Oracle.BufConcFam
