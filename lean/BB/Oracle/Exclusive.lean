import BB.Oracle.Util
import BB.Model.Exclusive

/-
  T3 acceptance of the `excl.*` hook-event log of `Exclusive` by the model `BB.Exclusive` (one model instance
  per key).  Events logged inside the item mutex are in their real order; `work`, `returned`, `fn`, `fnresolve`
  and `outcome` are logged outside it but in the program order of their goroutine, which is all the acceptance
  uses (`outcome` may precede the `resolve` hook: the value is then checked when the model has it).
-/
namespace BB.Oracle.ExclusiveFam
open BB.Exclusive BB.Oracle

structure S where
  keys : List (Nat × St) := []
  prog : List (Nat × (Nat × Bool)) := []      -- thread ↦ (key, start-style)
  items : List (Nat × (Nat × Nat)) := []      -- real item id ↦ (key, model index)
  pend : List (Nat × Nat) := []               -- values passed to resolve by work functions, oldest first
  awaiting : List Nat := []                   -- work function returned unresolved; the forced resolve is due
  expect : List (Nat × Nat) := []             -- outcomes received before the resolve hook was logged
  seen : List Nat := []                       -- calls that have received an outcome

def rej (x : S) (why : String) : Option (S × String × List String) := some (x, "rejected: " ++ why, [])
def ok (x : S) (tags : List String := []) : Option (S × String × List String) := some (x, "ok", tags)

def kv (s k : String) : Option Nat :=
  if s.startsWith (k ++ "=") then (s.drop (k.length + 1)).toString.toNat? else none

def getSt (x : S) (k : Nat) : St := (x.keys.lookup k).getD {}
def setSt (x : S) (k : Nat) (st : St) : S := { x with keys := (k, st) :: x.keys.filter (·.1 != k) }

def pcName : Pc → String
  | .idle => "idle" | .waiting => "waiting" | .running => "running" | .swapped => "swapped"
  | .working => "working" | .returned => "returned" | .done => "done"

/-- does the real item `item` denote model item `j` of key `k`?  (binds it on first sight) -/
def bindItem (x : S) (item k j : Nat) : Option S :=
  match x.items.lookup item with
  | some (k', j') => if k' == k && j' == j then some x else none
  | none => if x.items.any (fun e => e.2.1 == k && e.2.2 == j) then none else some { x with items := (item, (k, j)) :: x.items }

def step (x : S) (w : List String) : Option (S × String × List String) :=
  match w with
  | ["run", _, _, _] => ok {}
  | ["waitend", _] =>
    -- calls arriving as the runner's wait ends: the runner re-takes the item mutex and then the map mutex (the one lock order:
    -- BB.Conform.LockOrder), a caller that holds the item mutex validates under the map mutex and attaches to this batch or to
    -- the successor (BB.Props.C10: every call is answered with the value of an execution begun after it)
    some ({}, "overlaps=0 hung=0 wrong=0", ["calls_arrive_as_the_wait_ends"])
  | ["firstrace", _] =>
    -- racing first calls on the zero value: C09 holds from the initial state on (BB.Props.C09: at most one work function of a
    -- key in every reachable state; every call is answered), and the map is created once under the mutex
    -- (BB.Conform.Exclusive.map_created_under_the_mutex_inside_the_loop)
    some ({}, "overlaps=0 hung=0 wrong=0", ["racing_first_calls"])
  | ["handover", h0, h1] =>
    if !h0.startsWith "held0=" then ok {} else      -- the script line itself
    -- the forced schedule was reached when both gates held their goroutine
    if h0 == "held0=true" && h1 == "held1=true" then ok x ["forced_handover_schedule"] else ok x ["forced_handover_schedule_not_reached"]
  | ["prog", t, key, start] => do
    let t ← t.toNat?; let k ← kv key "key"; let s ← kv start "start"
    ok { x with prog := (t, (k, s == 1)) :: x.prog }
  | ["attach", t, item, n] => do
    let t ← t.toNat?; let item ← kv item "item"; let n ← kv n "n"
    let (k, start) ← x.prog.lookup t
    let st := getSt x k
    match BB.Exclusive.step st (.call t t start) with
    | none => rej x "a call attached twice"
    | some st' =>
      let j := (st'.threads t).item
      match bindItem x item k j with
      | none => rej x s!"attached to an item that is not the one in the map (model item {j})"
      | some x =>
        if (st'.items j).count != n then rej x s!"count after attach: model {(st'.items j).count}" else
        let it := st.items j
        ok (setSt x k st')
          ((if n > 1 then ["coalesced"] else []) ++
           (if it.running && n == 1 then ["first_attach_to_successor"] else []) ++
           (if it.running then ["attach_while_running_flag"] else []) ++
           (if x.prog.any (fun p => p.2.1 == k && (st.threads p.1).pc == .working && (st.items (st.threads p.1).item).complete) then ["attach_in_resolve_to_return_gap"] else []) ++
           (if x.prog.any (fun p => p.2.1 == k && (st.threads p.1).pc == .running && (st.threads p.1).item == j) then ["attach_during_callafter_wait"] else []) ++
           (if start then ["start_style"] else []))
  | ["escape", t, item, _] => do
    let t ← t.toNat?; let _ ← kv item "item"
    let (k, start) ← x.prog.lookup t
    let st := getSt x k
    if (st.threads t).pc == .done && start then ok x ["start_escape"] else rej x s!"escape hatch taken; model pc {pcName (st.threads t).pc}"
  | ["deliver", t, item] => do
    let t ← t.toNat?; let item ← kv item "item"
    let (k, _) ← x.prog.lookup t
    let st := getSt x k
    if x.items.lookup item != some (k, (st.threads t).item) then rej x "deliver on an item the call is not attached to" else
    match BB.Exclusive.step st (.wake t) with
    | none => rej x s!"deliver by a call that is not parked (model pc {pcName (st.threads t).pc})"
    | some st' =>
      if (st'.threads t).pc == .done then ok (setSt x k st') ["deliver"]
      else rej x s!"delivered a result, but in the model the item is {if (st.items (st.threads t).item).running then "still running" else "not complete"}"
  | ["run", t, item] => do
    let t ← t.toNat?; let item ← kv item "item"
    let (k, _) ← x.prog.lookup t
    let st := getSt x k
    if x.items.lookup item != some (k, (st.threads t).item) then rej x "run on an item the call is not attached to" else
    match BB.Exclusive.step st (.wake t) with
    | none => rej x s!"became the runner although not parked (model pc {pcName (st.threads t).pc})"
    | some st' =>
      if (st'.threads t).pc == .running then ok (setSt x k st') ["run"]
      else rej x s!"became the runner, but in the model the item is {if (st.items (st.threads t).item).running then "still running (another execution of the key is not finished)" else "complete"}"
  | ["swap", t, item] => do
    let t ← t.toNat?; let item ← kv item "item"
    let (k, _) ← x.prog.lookup t
    let st := getSt x k
    match BB.Exclusive.step st (.swap t) with
    | none => rej x s!"installed a successor although not the runner (model pc {pcName (st.threads t).pc})"
    | some st' =>
      match bindItem x item k st.nItems with
      | none => rej x "the successor is not a fresh item"
      | some x => ok (setSt x k st') (if (st.items (st.threads t).item).count > 1 then ["swap_with_batch"] else [])
  | ["work", t, item] => do
    let t ← t.toNat?; let item ← kv item "item"
    let (k, _) ← x.prog.lookup t
    let st := getSt x k
    if x.items.lookup item != some (k, (st.threads t).item) then rej x "work on an item the call is not attached to" else
    match BB.Exclusive.step st (.startWork t) with
    | none => rej x s!"work function called before the successor was installed (model pc {pcName (st.threads t).pc})"
    | some st' => ok (setSt x k st') ["work"]
  | ["invoke", _] => ok x
  | ["unanswered", c] => rej x s!"call {c} was made and returned, but no execution of its key began after it (lost call)"
  | ["fn", f, by_] => do
    let f ← f.toNat?; let b ← kv by_ "by"
    let (k, _) ← x.prog.lookup b
    let (kf, _) ← x.prog.lookup f
    let st := getSt x k
    let it := st.items (st.threads b).item
    if (st.threads b).pc != .working then rej x s!"a work function runs but its runner is {pcName (st.threads b).pc} in the model" else
    if kf != k then rej x "a work function supplied under another key was executed" else
    if (st.threads f).pc == .idle || (st.threads f).item != (st.threads b).item then rej x "the executed function was not supplied by a call coalesced into this execution" else
    -- (the property only asks for "supplied by one of them"; the model, like the code, keeps the latest)
    ok x ((if f != b then ["fn_of_later_caller"] else []) ++ (if it.ranFn != f then ["fn_not_the_latest_supplied"] else []))
  | ["fnresolve", b, r] => do
    let b ← b.toNat?; let r ← kv r "r"
    ok { x with pend := x.pend ++ [(b, r)] }
  | ["resolve", t, item] => do
    let t ← t.toNat?; let item ← kv item "item"
    let (k, _) ← x.prog.lookup t
    let st := getSt x k
    if x.items.lookup item != some (k, (st.threads t).item) then rej x "resolve on an item the call is not attached to" else
    if (st.items (st.threads t).item).complete then rej x "the once-only resolve body ran twice" else
    match x.pend.find? (·.1 == t) with
    | some (_, r) =>
      match BB.Exclusive.step st (.resolve t r) with
      | none => rej x s!"resolve outside the work function (model pc {pcName (st.threads t).pc})"
      | some st' => ok (setSt { x with pend := x.pend.erase (t, r) } k st') ["resolve_in_work"]
    | none =>
      if x.awaiting.contains t then
        match BB.Exclusive.step st (.workReturn t) with
        | none => rej x "forced resolve: model not working"
        | some st' => ok (setSt { x with awaiting := x.awaiting.erase t } k st') ["resolve_not_called"]
      else rej x "resolve hook without a resolve call and before the work function returned"
  | ["returned", t, item] => do
    let t ← t.toNat?; let _ ← kv item "item"
    let (k, _) ← x.prog.lookup t
    let st := getSt x k
    let x := { x with pend := x.pend.filter (·.1 != t) }
    if (st.threads t).pc != .working then rej x s!"work function returned; model pc {pcName (st.threads t).pc}" else
    if (st.items (st.threads t).item).complete then
      match BB.Exclusive.step st (.workReturn t) with
      | none => rej x "?"
      | some st' => ok (setSt x k st') ["returned_after_resolve"]
    else ok { x with awaiting := t :: x.awaiting }
  | ["clear", t, item, n] => do
    let t ← t.toNat?; let item ← kv item "item"; let n ← kv n "n"
    let (k, _) ← x.prog.lookup t
    let st := getSt x k
    if x.awaiting.contains t then rej x "the work function returned unresolved and no resolve-not-called outcome was produced" else
    if x.items.lookup item != some (k, (st.threads t).next) then rej x "cleared an item that is not the runner's successor" else
    if (st.items (st.threads t).next).count != n then rej x s!"successor count: model {(st.items (st.threads t).next).count}" else
    match BB.Exclusive.step st (.clearNext t) with
    | none => rej x s!"successor cleared before the work function returned (model pc {pcName (st.threads t).pc})"
    | some st' => ok (setSt x k st') (if n == 0 then ["key_deleted"] else ["successor_has_waiters"])
  | ["outcome", t, r] => do
    let t ← t.toNat?
    match kv r "r" with
    | none => rej x "unexpected outcome value"
    | some r =>
      let (k, start) ← x.prog.lookup t
      let st := getSt x k
      if start then rej x "a start-style call received an outcome" else
      if x.seen.contains t then rej x "second outcome" else
      let x := { x with seen := t :: x.seen }
      match (st.threads t).outcome with
      | some r' => if r' == r then ok x (if r == 0 then ["outcome_resolve_not_called"] else ["outcome"]) else rej x s!"outcome: model {r'}"
      | none => ok { x with expect := (t, r) :: x.expect } ["outcome_before_hook"]
  | ["overlap", key, n] => rej x s!"two work functions of one key overlap ({key} {n})"
  | ["otherkeysdone"] =>
    let st := getSt x 0
    let busy := x.prog.any (fun p => p.2.1 == 0 && ((st.threads p.1).pc == .working || (st.threads p.1).pc == .swapped || (st.threads p.1).pc == .running))
    -- (the harness has seen every caller of the other keys return; a key blocked by key 0 shows up as `!stuck`)
    let others := x.prog.all (fun p => p.2.1 == 0 || p.2.2 || x.seen.contains p.1)
    if !others then rej x "a caller of another key returned without an outcome" else
    ok x (if busy then ["other_keys_done_while_key0_busy"] else [])
  | ["quiesce", keys] => do
    let n ← kv keys "keys"
    let notDone := x.prog.filter (fun p => ((getSt x p.2.1).threads p.1).pc != .done)
    if !notDone.isEmpty then rej x s!"calls not finished in the model: {notDone.map (·.1)}" else
    let unanswered := x.prog.filter (fun p => !p.2.2 && (((getSt x p.2.1).threads p.1).outcome.isNone || !x.seen.contains p.1))
    if !unanswered.isEmpty then rej x s!"calls without an outcome: {unanswered.map (·.1)}" else
    let wrong := x.expect.filter (fun e => match x.prog.lookup e.1 with
      | some (k, _) => ((getSt x k).threads e.1).outcome != some e.2
      | none => true)
    if !wrong.isEmpty then rej x s!"outcomes differ from the model: {wrong.map (·.1)}" else
    if !x.awaiting.isEmpty then rej x "a forced resolve is missing" else
    if x.keys.any (fun ks => ks.2.map.isSome) then rej x "model: a key is still in the map" else
    if n != 0 then rej x "model: map empty" else
    let execs := x.keys.foldl (fun a ks => a + ks.2.execs) 0
    ok x (if execs < x.prog.length then ["fewer_executions_than_calls"] else [])
  | _ => none

def fam : Fam := { init := ({} : S), step := step }
end BB.Oracle.ExclusiveFam
