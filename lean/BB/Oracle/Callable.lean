import BB.Oracle.Util
import BB.Model.Callable

namespace BB.Oracle.CallableFam
open BB.Callable BB.Oracle

def tyOf : String → Option Ty
  | "int" => some .int | "str" => some .str | "any" => some .any | "err" => some .err | "pint" => some .pint
  | "sl" => some .sl | "map" => some .map | "fn" => some .fn | "ch" => some .ch | "named" => some .named
  | "perr" => some .perr | "arr" => some .arr | _ => none

def tyStr : Ty → String
  | .int => "int" | .str => "str" | .any => "any" | .err => "err" | .pint => "pint" | .sl => "sl" | .map => "map"
  | .fn => "fn" | .ch => "ch" | .named => "named" | .perr => "perr" | .arr => "arr"

def listOf (s : String) : List String := if s == "-" then [] else s.splitOn ","

def valOf (s : String) : Option Val :=
  if s == "nil" then some .unil else
  match s.splitOn "=" with
  | [t, v] => do
    let t ← tyOf t
    if v == "nil" then some (.typed t none) else (v.toNat?).map (fun k => .typed t (some k))
  | _ => none

def valStr : Val → String
  | .unil => "nil"
  | .typed t none => tyStr t ++ "=nil"
  | .typed t (some k) => s!"{tyStr t}={k}"

def retOf (s : String) : Option (Ty × Val) :=
  match s.splitOn ":" with
  | [t, v] => do
    let t ← tyOf t
    let v ← valOf v
    some (t, v)
  | _ => none

def targetOf (s : String) : Option Target :=
  if s == "nil" then some .unil else
  match s.splitOn ":" with
  | ["p", t] => (tyOf t).map .ptr
  | ["np", t] => (tyOf t).map .nilPtr
  | ["v", t] => (tyOf t).map .nonPtr
  | _ => none

def stargetOf (s : String) : Option STarget :=
  if s == "nil" then some .unil else
  match s.splitOn ":" with
  | ["ps", t] => (tyOf t).map .ptrSlice
  | ["nps", t] => (tyOf t).map .nilPtrSlice
  | ["pn", t] => (tyOf t).map .ptrNonSlice
  | ["v", t] => (tyOf t).map .nonPtr
  | _ => none

def step (_ : Unit) (w : List String) : Option (Unit × String × List String) :=
  match w with
  | ["call", params, var, rets, args, mode, targets] => do
    let params ← (listOf params).mapM tyOf
    let rets ← (listOf rets).mapM retOf
    let args ← (listOf args).mapM valOf
    let sig : Sig := { params := params, variadic := var == "1", results := rets.map (·.1) }
    let m ← (match mode with
      | "none" => some Mode.none
      | "results" => ((listOf targets).mapM targetOf).map Mode.results
      | "slice" => (match listOf targets with
          | [t] => (stargetOf t).map Mode.slice
          | _ => none)
      | _ => none)
    let out := call true sig args m (rets.map (·.2))
    let tags := (if sig.variadic then ["variadic"] else []) ++ (if args.any (· == .unil) then ["untyped_nil_arg"] else []) ++
      (match m with | .results ts => (if ts.any (· == .unil) then ["nil_target"] else []) | .slice .unil => ["nil_target"] | _ => []) ++
      (if args.any (fun a => match a with | .typed _ none => true | _ => false) then ["typed_nil_arg"] else []) ++
      (match out with | .ok _ _ => ["ok"] | .err => ["err"] | .panic => ["panic"]) ++
      (if (expand sig args.length).isNone then ["wrong_length"] else [])
    match out with
    | .ok passed stored => some ((), s!"ok passed=[{",".intercalate (passed.map valStr)}] stored=[{",".intercalate (stored.map valStr)}]", tags)
    | .err => some ((), "err", tags)
    | .panic => some ((), "panic", tags)
  | _ => none

def fam : Fam := { init := (), step := step }
end BB.Oracle.CallableFam
