import BB.Oracle.Util
import BB.Model.Workers

namespace BB.Oracle.WorkersFam
open BB.Workers BB.Oracle

structure S where
  st : St := {}
  gids : List (Option Nat) := []     -- goroutine id of each live worker (parallel to st.workers)
  maxRun : Nat := 0

def kv (s : String) (k : String) : Option Nat :=
  if s.startsWith (k ++ "=") then (s.drop (k.length + 1)).toString.toNat? else none

/-- index of the worker with goroutine id `g`, claiming an unclaimed idle worker if `g` is new -/
def workerOf (x : S) (g : Nat) : Option (S × Nat) :=
  match x.gids.idxOf? (some g) with
  | some i => some (x, i)
  | none =>
    match (List.range x.gids.length).find? (fun i => x.gids[i]? == some none && x.st.workers[i]? == some none) with
    | some i => some ({ x with gids := x.gids.set i (some g) }, i)
    | none => none

def rej (x : S) (why : String) : Option (S × String × List String) := some (x, "rejected: " ++ why, [])

def step (x : S) (w : List String) : Option (S × String × List String) :=
  match w with
  | ["run", _, _, _] => some ({}, "ok", [])
  | ["flood", _] =>
    -- BB.Props.C14 (reply layer): worker_never_waits_for_the_caller, call_returns_its_own_result_once, no_reply_is_lost —
    -- the reply slot is a one-place buffer (T1: reply_channel_is_buffered), whatever the relative speed of worker and caller
    some ({}, "hung=false wrong=0 errors=0", ["flood_of_trivial_jobs"])
  | ["call", _g, j, n, c] => do
    let j ← j.toNat?; let n ← n.toNat?; let c ← kv c "count"
    match BB.Workers.step x.st (.call j n) with
    | none => rej x "call not enabled"
    | some st' =>
      if count st' != c then rej x s!"count after call: model {count st'}" else
      some ({ x with st := st', gids := x.gids ++ List.replicate (st'.workers.length - x.gids.length) none }, "ok",
        (if n < x.st.target && !x.st.queue.isEmpty then ["target_shrinks_queue_nonempty"] else []) ++
        (if n > count x.st then ["spawn"] else []))
  | ["take", g, q] => do
    let g ← g.toNat?; let q ← kv q "qlen"
    match workerOf x g with
    | none => rej x "take by an unknown goroutine and no idle unclaimed worker"
    | some (x, i) =>
      match BB.Workers.step x.st (.take i) with
      | none => rej x "take not enabled"
      | some st' =>
        if st'.queue.length != q then rej x s!"queue length after take: model {st'.queue.length}" else
        let r := (running st').length
        some ({ x with st := st', maxRun := max x.maxRun r }, "ok", if r ≥ 2 then ["parallel_jobs"] else [])
  | ["jobstart", g, j] => do
    let g ← g.toNat?; let j ← j.toNat?
    match x.gids.idxOf? (some g) with
    | some i => if x.st.workers[i]? == some (some j) then some (x, "ok", []) else rej x "job started by a worker that did not take it"
    | none => rej x "job started by an unknown goroutine"
  | ["jobend", g, _j] => do
    let g ← g.toNat?
    match x.gids.idxOf? (some g) with
    | some i =>
      match BB.Workers.step x.st (.finish i) with
      | some st' => some ({ x with st := st' }, "ok", [])
      | none => rej x "finish not enabled"
    | none => rej x "job ended on an unknown goroutine"
  | ["exit", g, c] => do
    let g ← g.toNat?; let c ← kv c "count"
    match workerOf x g with
    | none => rej x "exit by an unknown goroutine"
    | some (x, i) =>
      match BB.Workers.step x.st (.exit i) with
      | none => rej x "exit not enabled (queue non-empty and count <= target)"
      | some st' =>
        if count st' != c then rej x s!"count after exit: model {count st'}" else
        some ({ x with st := st', gids := x.gids.eraseIdx i }, "ok",
          if !x.st.queue.isEmpty then ["exit_with_queue"] else [])
  | ["ret", j, r] => do
    let j ← j.toNat?
    if x.st.done.contains j && r == toString (j * 10) then some (x, "ok", []) else rej x "result before/without the job finishing, or wrong result"
  | ["wait", c] => do
    let c ← kv c "count"
    if c == 0 && count x.st == 0 && (running x.st).isEmpty then some (x, "ok", ["wait_returned"]) else rej x "Wait returned while workers are live"
  | ["final", c, q] => do
    let c ← kv c "count"; let q ← kv q "queued"
    if c == count x.st && q == x.st.queue.length && c == 0 && q == 0 then some (x, "ok", []) else rej x s!"final state: model count={count x.st} queued={x.st.queue.length}"
  | _ => none

def fam : Fam := { init := ({} : S), step := step }
end BB.Oracle.WorkersFam
