import BB.Oracle.Util
import BB.Model.Attempt

namespace BB.Oracle.AttemptFam
open BB.Attempt BB.Oracle

structure S where
  st : St := { count := 0 }
  mayCancel : Bool := false       -- cancel() has been called (it may or may not have taken effect yet)
  earlySent : Bool := false       -- a receive was logged before the goroutine logged the send that fed it
  undo : Option St := none        -- state before the last receive (for a `full` logged after the receive that emptied the slot)
  lastNs : Nat := 0
  recvd : Nat := 0
  credit : Nat := 0               -- receives that must already have happened (the slot was refilled) but are not logged yet
  started : Bool := false
  cancelledBeforeCheck : Bool := false   -- cancel() had returned before the current re-check began

def rej (x : S) (why : String) : Option (S × String × List String) := some (x, "rejected: " ++ why, [])

def act (x : S) (a : Act) (why : String) (tags : List String := []) : Option (S × String × List String) :=
  match BB.Attempt.step x.st a with
  | some st' => some ({ x with st := st', undo := none }, "ok", tags)
  | none => rej x why

/-- the goroutine observed the cancellation: it must have been requested -/
def observeCancel (x : S) : Option S :=
  if x.st.cancelled then some x
  else if x.mayCancel then some { x with st := { x.st with cancelled := true } }
  else none

def step (x : S) (w : List String) : Option (S × String × List String) :=
  match w with
  | ["run", _, _, _, _, _] => some ({}, "ok", [])
  | ["erronly", c, _] => do
    -- BB.Attempt.start count true: a context that has already ended (whatever way it reports it) gets a closed, empty channel
    let c ← c.toNat?
    let s0 := start c true
    some ({}, s!"values={s0.sent.length} {if s0.closed then "closed" else "not-closed"}", ["pre_cancelled_err_only_context"])
  | ["tiny", _, _, _, _] =>
    -- BB.Props.C20: the values are non-decreasing whatever stamps the ticker delivers (`forwarded_stamps_nondecreasing`), never
    -- more than count
    some ({}, "nonmonotonic=0 toomany=0", ["tiny_rate"])
  | ["slowcancel", _, _, _] =>
    -- after cancellation ctx.Done() is ready in the goroutine's select at `top` (also on the slot-full retry path): the goroutine
    -- does not wait for a further tick (BB.Props.C20.closed_promptly_after_cancel; real time: half a period is ample)
    some ({}, "closed-promptly", ["cancel_on_slot_full_path"])
  | ["start", count, pre, _rate, _pace] => do
    let count ← count.toNat?
    some ({ st := start count (pre == "pre=1"), started := true }, "ok", if pre == "pre=1" then ["pre_cancelled"] else [])
  | ["cancelling"] => some ({ x with mayCancel := true }, "ok", [])
  | ["cancelled"] => some ({ x with st := { x.st with cancelled := true } }, "ok", ["cancelled"])
  | ["recv", ns] => do
    let ns ← ns.toNat?
    if ns < x.lastNs then rej x "timestamps decreased" else
    let x := { x with lastNs := ns, recvd := x.recvd + 1 }
    if x.credit > 0 then some ({ x with credit := x.credit - 1 }, "ok", ["recv_logged_late"]) else
    match x.st.buf, x.st.pc with
    | some _, pc =>
      match BB.Attempt.step x.st .recv with
      | some st' => some ({ x with st := st', undo := (match pc with | .checked _ => some x.st | _ => none) }, "ok",
          if x.st.cancelled then ["recv_after_cancel"] else [])
      | none => rej x "?"
    | none, .checked _ =>
      -- the send completed but its hook point has not logged yet
      match BB.Attempt.step x.st .trysend with
      | some st1 => match BB.Attempt.step st1 .recv with
        | some st2 => some ({ x with st := st2, earlySent := true, undo := none }, "ok", ["recv_before_sent_hook"])
        | none => rej x "received a value that was never sent"
      | none => rej x "received a value that was never sent"
    | none, _ => rej x "received a value although the channel is empty and no send is in flight"
  | ["tick", _] => act x .tick "tick taken although the goroutine is not at its select" []
  | ["ctxdone", _] =>
    match observeCancel x with
    | some x => act x .ctxdone "select took ctx.Done()" ["exit_by_ctxdone"]
    | none => rej x "goroutine saw the context cancelled but it was not"
  | ["recheck.cancelled", _] =>
    match observeCancel x with
    | some x => act x .recheck "re-check" ["exit_by_recheck"]
    | none => rej x "re-check saw the context cancelled but it was not"
  | ["recheck.begin", _] => some ({ x with cancelledBeforeCheck := x.st.cancelled }, "ok", [])
  | ["recheck.ok", _] =>
    if x.cancelledBeforeCheck then rej x "re-check passed although cancel() had returned before the re-check began"
    else
      -- legal order: the re-check ran before the cancellation took effect (even if `cancelled` is logged already)
      match x.st.pc with
      | .ticked t => some ({ x with st := { x.st with pc := .checked t }, undo := none }, "ok",
          if x.st.cancelled then ["cancel_between_recheck_and_send"] else [])
      | _ => rej x "re-check although no tick was taken"
  | ["sent", i] =>
    match i.toNat? with
    | none => none
    | some i =>
      match x.earlySent, x.st.buf with
      | true, _ =>
        if x.st.i == i then some ({ x with earlySent := false }, "ok", []) else rej x s!"loop counter: model {x.st.i}"
      | false, some _ =>
        -- the receiver emptied the slot but has not logged its receive yet: account for it now
        match BB.Attempt.step x.st .recv with
        | some st1 =>
          match BB.Attempt.step st1 .trysend with
          | some st' =>
            if st'.i == i then some ({ x with st := st', undo := none, credit := x.credit + 1 }, "ok",
                (if x.st.cancelled then ["sent_after_cancel"] else []) ++ (if st'.closed then ["count_reached"] else []))
            else rej x s!"loop counter: model {st'.i}"
          | none => rej x "send not enabled"
        | none => rej x "send not enabled"
      | false, none =>
        match BB.Attempt.step x.st .trysend with
        | some st' =>
          if st'.i == i then some ({ x with st := st', undo := none }, "ok",
              (if x.st.cancelled then ["sent_after_cancel"] else []) ++ (if st'.closed then ["count_reached"] else []))
          else rej x s!"loop counter: model {st'.i}"
        | none => rej x "send not enabled"
  | ["full", _] =>
    match x.st.buf with
    | some _ => act x .trysend "send attempt" ["slow_consumer_tick_dropped"]
    | none =>
      -- the failed attempt happened before the receive that was logged first: replay in that order
      match x.undo with
      | some before =>
        match BB.Attempt.step before .trysend with
        | some st1 => match BB.Attempt.step st1 .recv with
          | some st2 => some ({ x with st := st2, undo := none }, "ok", ["slow_consumer_tick_dropped"])
          | none => rej x "?"
        | none => rej x "?"
      | none => rej x "send reported the slot full although it is empty"
  | ["exit"] =>
    if x.st.pc == .exited && x.st.closed then some (x, "ok", []) else rej x "goroutine exited in a state where the model has not closed the channel"
  | ["closedseen"] =>
    if x.st.closed && x.st.buf.isNone && x.credit == 0 then some (x, "ok", []) else rej x "receiver saw the channel closed before the model closed it / with a value still buffered"
  | ["final", n] => do
    let n ← n.toNat?
    if n == x.st.sent.length && n ≤ x.st.count && x.st.closed then some (x, "ok", (if n == x.st.count then ["all_values"] else []))
    else rej x s!"final: received {n}, model sent {x.st.sent.length} of {x.st.count}, closed={x.st.closed}"
  | _ => none

def fam : Fam := { init := ({} : S), step := step }
end BB.Oracle.AttemptFam
