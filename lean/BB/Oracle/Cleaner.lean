import BB.Oracle.Util
import BB.Model.Cleaner

namespace BB.Oracle.CleanerFam
open BB.Cleaner BB.Oracle

def step (_ : Unit) (w : List String) : Option (Unit × String × List String) :=
  match w with
  | "def" :: size :: offs => do
    let size ← size.toInt?
    let offs ← offs.mapM String.toInt?
    let r := defaultCleaner size offs
    let tags := (if offs.any (· < 0) && offs.any (· == 0) then ["neg_and_zero"] else []) ++
      (if offs.any (· == size) then ["eq_size"] else []) ++ (if offs.any (· > size) then ["gt_size"] else []) ++
      (if r > 0 then ["positive"] else [])
    some ((), toString r, tags)
  | "fix" :: mx :: tg :: size :: offs => do
    let mx ← mx.toInt?
    let tg ← tg.toInt?
    let size ← size.toInt?
    let offs ← offs.mapM String.toInt?
    let r := fixedCleaner mx tg size offs
    let cb := if size > mx then s!"{mx}:{tg}:{size}:{size - tg}:{offs.length}" else "none"
    some ((), s!"{r} cb={cb}", (if size > mx then ["forced"] else ["deferred"]) ++ (if tg > mx then ["target_gt_max"] else []))
  | _ => none

def fam : Fam := { init := (), step := step }
end BB.Oracle.CleanerFam
