import BB.Oracle.Util
import BB.Model.Lifecycle
import BB.Model.Buffer
import BB.Model.Channel

namespace BB.Oracle.LifecycleFam
open BB.Oracle

/-- after everything is closed / cancelled / returned: the post-close probes match the models (errors of
    Put/NewConsumer after close, second Close, Channel Get/Commit after close) and — by the goroutine-exit
    theorems — no library goroutine is left, for every cooldown -/
def expectProbes : Bool :=
  (BB.Buffer.put (BB.Buffer.closeBuf {}) [9]).2 == some .canceled &&
  (BB.Buffer.newConsumer (BB.Buffer.closeBuf {})).2 == some .canceled &&
  (BB.Channel.getOp { closed := true }).2 == .err .canceled &&
  (BB.Channel.commit { closed := true }).2 == some .canceled &&
  (BB.Channel.close { closed := true }).2 == some .once

def stepF (_ : Unit) (w : List String) : Option (Unit × String × List String) :=
  match w with
  | ["prog", cd, _] =>
    let r := if expectProbes then "probes=- goroutines=0" else "probes=model-disagrees goroutines=0"
    some ((), r, (if cd == "5000" then ["long_cooldown"] else []) ++ ["shutdown_order"])
  | ["closewait", _] =>
    -- Buffer.Close returns only when no consumer is registered any more (BB.Props.C12: the close path leaves its wait only
    -- with `consumers = 0`), whatever is broadcast meanwhile; inspection calls never hang
    some ((), "probes=- goroutines=0", ["close_waits_for_every_consumer"])
  | _ => none

def fam : Fam := { init := (), step := stepF }
end BB.Oracle.LifecycleFam
