/- Function-indexed populations: point update and finite sums over an index prefix. -/
namespace BB.Fun

def upd {α : Type} (f : Nat → α) (i : Nat) (v : α) : Nat → α := fun j => if j = i then v else f j

theorem upd_apply {α : Type} (f : Nat → α) (i j : Nat) (v : α) : upd f i v j = if j = i then v else f j := rfl
@[simp] theorem upd_same {α : Type} (f : Nat → α) (i : Nat) (v : α) : upd f i v i = v := by simp [upd]
theorem upd_other {α : Type} (f : Nat → α) {i j : Nat} (v : α) (h : j ≠ i) : upd f i v j = f j := by simp [upd, h]

def sumTo (f : Nat → Nat) : Nat → Nat
  | 0 => 0
  | n + 1 => sumTo f n + f n

theorem sumTo_congr {f g : Nat → Nat} {n : Nat} (h : ∀ j, j < n → f j = g j) : sumTo f n = sumTo g n := by
  induction n with
  | zero => rfl
  | succ n ih =>
    simp only [sumTo]
    rw [ih (fun j hj => h j (by omega)), h n (by omega)]

theorem sumTo_le {f g : Nat → Nat} {n : Nat} (h : ∀ j, j < n → f j ≤ g j) : sumTo f n ≤ sumTo g n := by
  induction n with
  | zero => exact Nat.le_refl _
  | succ n ih =>
    simp only [sumTo]
    have := ih (fun j hj => h j (by omega)); have := h n (by omega); omega

/-- changing one term -/
theorem sumTo_change {f g : Nat → Nat} {n j : Nat} (hj : j < n) (ho : ∀ k, k ≠ j → g k = f k) :
    sumTo g n + f j = sumTo f n + g j := by
  induction n with
  | zero => omega
  | succ n ih =>
    simp only [sumTo]
    by_cases e : j = n
    · subst e
      rw [sumTo_congr (f := g) (g := f) (fun k hk => ho k (by omega))]; omega
    · have := ih (by omega); rw [ho n (fun e' => e e'.symm)]; omega

theorem sumTo_ge_term (f : Nat → Nat) {n j : Nat} (hj : j < n) : f j ≤ sumTo f n := by
  induction n with
  | zero => omega
  | succ n ih =>
    simp only [sumTo]
    by_cases e : j = n
    · subst e; omega
    · have := ih (by omega); omega

theorem sumTo_pos_witness (f : Nat → Nat) {n : Nat} (h : 0 < sumTo f n) : ∃ j, j < n ∧ 0 < f j := by
  induction n with
  | zero => simp [sumTo] at h
  | succ n ih =>
    simp only [sumTo] at h
    by_cases e : 0 < f n
    · exact ⟨n, by omega, e⟩
    · obtain ⟨j, h1, h2⟩ := ih (by omega); exact ⟨j, by omega, h2⟩

theorem sumTo_zero {f : Nat → Nat} {n : Nat} (h : ∀ j, j < n → f j = 0) : sumTo f n = 0 := by
  induction n with
  | zero => rfl
  | succ n ih => simp only [sumTo]; rw [ih (fun j hj => h j (by omega)), h n (by omega)]

end BB.Fun
