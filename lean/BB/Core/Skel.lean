/-
  Synchronisation skeletons: flat control-flow graphs regenerated from /repo by the translator
  (`/verif/go/cmd/extract`), and decidable path predicates over them.  All searches are
  structurally recursive on a fuel argument so that the kernel can evaluate them (`decide`).
-/
namespace BB.Skel

structure Node where
  id : Nat
  kind : Nat
  sym : Nat
  deferred : Nat      -- 0 inline, 1 deferred call executed at this exit on every path, 2 on some paths only
  succ : List Nat
deriving Repr, DecidableEq

abbrev Graph := List Node

/- event kinds (must match the translator) -/
namespace K
def entry := 0
def exit := 1
def nop := 2
def lock := 3
def unlock := 4
def rlock := 5
def runlock := 6
def tryrlock := 7
def trylock := 8
def condwait := 9
def broadcast := 10
def signal := 11
def wgadd := 12
def wgdone := 13
def wgwait := 14
def oncedo := 15
def atomicload := 16
def atomicstore := 17
def atomicadd := 18
def atomiccas := 19
def send := 20
def recv := 21
def close := 22
def select := 23
def go := 24
def deferreg := 25
def ctxerr := 26
def ctxdone := 27
def withcancel := 28
def withoutcancel := 29
def afterfunc := 30
def cancelcall := 31
def call := 32
def callvar := 33
def lit := 34
def read := 35
def write := 36
def panic := 37
def ret := 38
def timernew := 39
def timerstop := 40
def sleep := 41
def selectdefault := 42
def cond := 43
end K

def Graph.node (g : Graph) (i : Nat) : Option Node := g.find? (·.id == i)

abbrev Pred := Node → Bool
def is (kind sym : Nat) : Pred := fun n => n.kind == kind && n.sym == sym
def isKind (kind : Nat) : Pred := fun n => n.kind == kind
def por (p q : Pred) : Pred := fun n => p n || q n

/-- is there a path that starts at the successors of the nodes in `work`, avoids every node
    satisfying `block`, and reaches a node satisfying `target`?  (`seen` = visited ids) -/
def search (g : Graph) (block target : Pred) : Nat → List Nat → List Nat → Bool
  | 0, _, _ => true       -- out of fuel: answer conservatively "a path may exist"
  | _, [], _ => false
  | fuel + 1, i :: work, seen =>
    if seen.contains i then search g block target fuel work seen
    else match g.node i with
      | none => search g block target fuel work (i :: seen)
      | some n =>
        if target n then true
        else if block n then search g block target fuel work (i :: seen)
        else search g block target fuel (n.succ ++ work) (i :: seen)

def fuelOf (g : Graph) : Nat := 4 * g.length * g.length + 16

/-- successors of all nodes satisfying `p` -/
def succsOf (g : Graph) (p : Pred) : List Nat := (g.filter p).flatMap (·.succ)

/-- every path from the entry to a `b` node passes an `a` node first -/
def dominates (g : Graph) (a b : Pred) : Bool :=
  !(search g a b (fuelOf g) (succsOf g (isKind K.entry)) [])

/-- every path from an `a` node to a `c` node passes a `b` node in between -/
def between (g : Graph) (a c b : Pred) : Bool :=
  !(search g b c (fuelOf g) (succsOf g a) [])

/-- no path leads from an `a` node to a `c` node -/
def never (g : Graph) (a c : Pred) : Bool := between g a c (fun _ => false)

/-- some node satisfies `p` -/
def has (g : Graph) (p : Pred) : Bool := g.any p

/-- every path from an `a` node to an exit passes a `b` node -/
def beforeExit (g : Graph) (a b : Pred) : Bool := between g a (isKind K.exit) b

/-- no `c` node is reachable from the entry at all -/
def unreachable (g : Graph) (c : Pred) : Bool := dominates g (fun _ => false) c == false |> not

end BB.Skel

namespace BB.Skel

/-- ids of the first successor ("then" branch) of every cond node with symbol `c` -/
def trueSuccs (g : Graph) (c : Nat) : List Nat := (g.filter (is K.cond c)).filterMap (·.succ.head?)

/-- `t` is reachable only through the true branch of the condition `c`
    (blocking the then-branch entry nodes makes every `t` unreachable from the entry) -/
def guardTrue (g : Graph) (c : Nat) (t : Pred) : Bool :=
  has g (is K.cond c) && (trueSuccs g c).all (fun i => ((g.filter (is K.cond c)).all fun n => n.succ.length == 2 && n.succ.getLast? != some i)) &&
  !(search g (fun n => (trueSuccs g c).contains n.id) (fun n => t n && !((trueSuccs g c).contains n.id)) (fuelOf g) (succsOf g (isKind K.entry)) [])

/-- on the true branch of condition `c`, every path to a `b` node passes an `a` node -/
def condTrueThrough (g : Graph) (c : Nat) (a b : Pred) : Bool :=
  has g (is K.cond c) && !(search g a b (fuelOf g) ((trueSuccs g c).filter (fun i => match g.node i with | some n => !(a n) | none => true)) [])
    && (trueSuccs g c).all (fun i => match g.node i with | some n => !(b n) || a n | none => true)

/-- no inline (non-deferred) node satisfies `p` -/
def noInline (g : Graph) (p : Pred) : Bool := !(g.any fun n => p n && n.deferred == 0)

/-- STRICT reachability (answers `false` when out of fuel): some path from the nodes in `work` reaches a `target` node -/
def reach (g : Graph) (target : Pred) : Nat → List Nat → List Nat → Bool
  | 0, _, _ => false
  | _, [], _ => false
  | fuel + 1, i :: work, seen =>
    if seen.contains i then reach g target fuel work seen
    else match g.node i with
      | none => reach g target fuel work (i :: seen)
      | some n => if target n then true else reach g target fuel (n.succ ++ work) (i :: seen)

/-- every `sync.Cond.Wait` of the function lies on a cycle of its control-flow graph, i.e. is re-executed in a loop
    (the classical rule: the condition must be re-checked after every wake-up, because wake-ups may be for someone else) -/
def waitsInLoops (g : Graph) : Bool :=
  (g.filter (isKind K.condwait)).all fun n => reach g (fun m => m.id == n.id) (fuelOf g) n.succ []

/-- there is no path a →* b →* c -/
def noneBetween (g : Graph) (a c b : Pred) : Bool := never g a b || never g b c

end BB.Skel
