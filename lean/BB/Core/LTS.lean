/-
  Labelled transition systems with partial steps, reachability, and the invariant rule.
  Thread populations are lists inside the state, so the number of goroutines is unbounded.
-/
namespace BB.LTS

structure Sys (σ α : Type) where
  init : σ
  step : σ → α → Option σ

variable {σ α : Type}

/-- run a list of actions; `none` if some action is not enabled -/
def Sys.run (S : Sys σ α) : σ → List α → Option σ
  | s, [] => some s
  | s, a :: as => match S.step s a with
    | none => none
    | some s' => S.run s' as

inductive Reach (S : Sys σ α) : σ → Prop
  | init : Reach S S.init
  | step {s s' : σ} {a : α} : Reach S s → S.step s a = some s' → Reach S s'

theorem invariant (S : Sys σ α) (I : σ → Prop) (h0 : I S.init)
    (hs : ∀ s a s', I s → S.step s a = some s' → I s') : ∀ s, Reach S s → I s := by
  intro s hr
  induction hr with
  | init => exact h0
  | step _ hst ih => exact hs _ _ _ ih hst

theorem reach_run (S : Sys σ α) {s s' : σ} (hr : Reach S s) (as : List α) (h : S.run s as = some s') : Reach S s' := by
  induction as generalizing s with
  | nil => simp [Sys.run] at h; subst h; exact hr
  | cons a as ih =>
    simp only [Sys.run] at h
    cases hst : S.step s a with
    | none => simp [hst] at h
    | some s1 => simp only [hst] at h; exact ih (Reach.step hr hst) h

end BB.LTS
