/- Access records of the lockset table (the theory is in BB/Proofs/Lockset.lean). -/
namespace BB.Lockset

structure Access where
  field : Nat
  write : Bool
  fn : Nat
  locks : List (Nat × Nat)     -- (lock symbol, 1 = write-locked / 2 = read-locked)
deriving Repr, DecidableEq

end BB.Lockset
