/-
  Infinite runs with stuttering, weak fairness, and a ranking-function rule for `leadsTo`.
-/
import BB.Core.LTS

namespace BB.LTS

variable {σ α : Type}

structure Run (S : Sys σ α) where
  st : Nat → σ
  act : Nat → Option α                 -- `none` = stuttering step
  start : st 0 = S.init
  next : ∀ i, match act i with
    | some a => S.step (st i) a = some (st (i + 1))
    | none => st (i + 1) = st i

def enabled (S : Sys σ α) (s : σ) (a : α) : Prop := (S.step s a).isSome = true

/-- weak fairness w.r.t. a class `H` of actions: if from some point on an `H` action is enabled at every
    step, then an `H` action is eventually taken -/
def WeakFair (S : Sys σ α) (H : σ → α → Prop) (r : Run S) : Prop :=
  ∀ i, (∀ j, i ≤ j → ∃ a, H (r.st j) a ∧ enabled S (r.st j) a) →
    ∃ j, i ≤ j ∧ ∃ a, r.act j = some a ∧ H (r.st j) a

theorem run_reach (S : Sys σ α) (r : Run S) : ∀ i, Reach S (r.st i) := by
  intro i
  induction i with
  | zero => rw [r.start]; exact Reach.init
  | succ i ih =>
    have := r.next i
    cases ha : r.act i with
    | none => simp only [ha] at this; rw [this]; exact ih
    | some a => simp only [ha] at this; exact Reach.step ih this

/-- **leadsTo by a ranking function.**  Along a weakly fair run all of whose states satisfy `I`: if in every
    non-goal state some `H` action is enabled, no step increases the measure, and every `H` step decreases
    it (or reaches the goal), then from every point the goal is eventually reached. -/
theorem leadsTo (S : Sys σ α) (H : σ → α → Prop) (r : Run S) (I G : σ → Prop) (μ : σ → Nat)
    (hfair : WeakFair S H r) (hI : ∀ i, I (r.st i))
    (hen : ∀ s, I s → ¬ G s → ∃ a, H s a ∧ enabled S s a)
    (hmono : ∀ s a s', I s → ¬ G s → S.step s a = some s' → G s' ∨ μ s' ≤ μ s)
    (hdec : ∀ s a s', I s → ¬ G s → H s a → S.step s a = some s' → G s' ∨ μ s' < μ s) :
    ∀ i, ∃ j, i ≤ j ∧ G (r.st j) := by
  -- strong induction on the measure
  suffices h : ∀ n i, μ (r.st i) ≤ n → ∃ j, i ≤ j ∧ G (r.st j) from fun i => h _ i (Nat.le_refl _)
  intro n
  induction n with
  | zero =>
    intro i hi
    by_cases hG : ∃ j, i ≤ j ∧ G (r.st j)
    · exact hG
    · exfalso
      have hnG : ∀ j, i ≤ j → ¬ G (r.st j) := fun j hj hg => hG ⟨j, hj, hg⟩
      -- the measure stays 0 from i on
      have hzero : ∀ k, μ (r.st (i + k)) = 0 := by
        intro k
        induction k with
        | zero => simpa using Nat.le_zero.mp hi
        | succ k ihk =>
          have hn := r.next (i + k)
          cases ha : r.act (i + k) with
          | none => simp only [ha] at hn; rw [show i + (k + 1) = i + k + 1 by omega, hn]; exact ihk
          | some a =>
            simp only [ha] at hn
            rcases hmono _ a _ (hI _) (hnG _ (by omega)) hn with hg | hle
            · exact absurd hg (hnG _ (by omega))
            · rw [show i + (k + 1) = i + k + 1 by omega]; omega
      obtain ⟨j, hj, a, ha, hH⟩ := hfair i (fun j hj => hen _ (hI j) (hnG j hj))
      have hn := r.next j
      simp only [ha] at hn
      rcases hdec _ a _ (hI j) (hnG j hj) hH hn with hg | hlt
      · exact hnG (j + 1) (by omega) hg
      · have := hzero (j - i); rw [show i + (j - i) = j by omega] at this; omega
  | succ n ih =>
    intro i hi
    by_cases hG : ∃ j, i ≤ j ∧ G (r.st j)
    · exact hG
    · exfalso
      have hnG : ∀ j, i ≤ j → ¬ G (r.st j) := fun j hj hg => hG ⟨j, hj, hg⟩
      have hle : ∀ k, μ (r.st (i + k)) ≤ n + 1 := by
        intro k
        induction k with
        | zero => simpa using hi
        | succ k ihk =>
          have hn := r.next (i + k)
          cases ha : r.act (i + k) with
          | none => simp only [ha] at hn; rw [show i + (k + 1) = i + k + 1 by omega, hn]; exact ihk
          | some a =>
            simp only [ha] at hn
            rcases hmono _ a _ (hI _) (hnG _ (by omega)) hn with hg | hle
            · exact absurd hg (hnG _ (by omega))
            · rw [show i + (k + 1) = i + k + 1 by omega]; omega
      obtain ⟨j, hj, a, ha, hH⟩ := hfair i (fun j hj => hen _ (hI j) (hnG j hj))
      have hn := r.next j
      simp only [ha] at hn
      rcases hdec _ a _ (hI j) (hnG j hj) hH hn with hg | hlt
      · exact hnG (j + 1) (by omega) hg
      · have hjle := hle (j - i); rw [show i + (j - i) = j by omega] at hjle
        obtain ⟨j', hj', hg⟩ := ih (j + 1) (by omega)
        exact hnG j' (by omega) hg

/-- **leadsTo from a point on, for the steps a run takes from then on.**  The same rule for runs whose steps from
    `i0` on all belong to a class `A` (for instance: no new requests arrive): the hypotheses about steps are only
    needed for `A` steps, the conclusion holds from `i0` on. -/
theorem leadsTo_from (S : Sys σ α) (H : σ → α → Prop) (r : Run S) (I G : σ → Prop) (μ : σ → Nat)
    (A : α → Prop) (i0 : Nat) (hA : ∀ j, i0 ≤ j → ∀ a, r.act j = some a → A a)
    (hfair : WeakFair S H r) (hI : ∀ i, I (r.st i))
    (hen : ∀ s, I s → ¬ G s → ∃ a, H s a ∧ enabled S s a)
    (hmono : ∀ s a s', I s → ¬ G s → A a → S.step s a = some s' → G s' ∨ μ s' ≤ μ s)
    (hdec : ∀ s a s', I s → ¬ G s → A a → H s a → S.step s a = some s' → G s' ∨ μ s' < μ s) :
    ∀ i, i0 ≤ i → ∃ j, i ≤ j ∧ G (r.st j) := by
  suffices h : ∀ n i, i0 ≤ i → μ (r.st i) ≤ n → ∃ j, i ≤ j ∧ G (r.st j) from fun i hi => h _ i hi (Nat.le_refl _)
  -- while the goal is not reached the measure does not grow
  have stay : ∀ i n, i0 ≤ i → μ (r.st i) ≤ n → (∀ j, i ≤ j → ¬ G (r.st j)) → ∀ k, μ (r.st (i + k)) ≤ n := by
    intro i n hi0 hi hnG k
    induction k with
    | zero => simpa using hi
    | succ k ihk =>
      have hn := r.next (i + k)
      cases ha : r.act (i + k) with
      | none => simp only [ha] at hn; rw [show i + (k + 1) = i + k + 1 by omega, hn]; exact ihk
      | some a =>
        simp only [ha] at hn
        rcases hmono _ a _ (hI _) (hnG _ (by omega)) (hA _ (by omega) a ha) hn with hg | hle
        · exact absurd hg (hnG _ (by omega))
        · rw [show i + (k + 1) = i + k + 1 by omega]; omega
  intro n
  induction n with
  | zero =>
    intro i hi0 hi
    by_cases hG : ∃ j, i ≤ j ∧ G (r.st j)
    · exact hG
    · exfalso
      have hnG : ∀ j, i ≤ j → ¬ G (r.st j) := fun j hj hg => hG ⟨j, hj, hg⟩
      obtain ⟨j, hj, a, ha, hH⟩ := hfair i (fun j hj => hen _ (hI j) (hnG j hj))
      have hn := r.next j
      simp only [ha] at hn
      rcases hdec _ a _ (hI j) (hnG j hj) (hA j (by omega) a ha) hH hn with hg | hlt
      · exact hnG (j + 1) (by omega) hg
      · have := stay i 0 hi0 hi hnG (j - i); rw [show i + (j - i) = j by omega] at this; omega
  | succ n ih =>
    intro i hi0 hi
    by_cases hG : ∃ j, i ≤ j ∧ G (r.st j)
    · exact hG
    · exfalso
      have hnG : ∀ j, i ≤ j → ¬ G (r.st j) := fun j hj hg => hG ⟨j, hj, hg⟩
      obtain ⟨j, hj, a, ha, hH⟩ := hfair i (fun j hj => hen _ (hI j) (hnG j hj))
      have hn := r.next j
      simp only [ha] at hn
      rcases hdec _ a _ (hI j) (hnG j hj) (hA j (by omega) a ha) hH hn with hg | hlt
      · exact hnG (j + 1) (by omega) hg
      · have hjle := stay i (n + 1) hi0 hi hnG (j - i); rw [show i + (j - i) = j by omega] at hjle
        obtain ⟨j', hj', hg⟩ := ih (j + 1) (by omega) (by omega)
        exact hnG j' (by omega) hg

end BB.LTS
