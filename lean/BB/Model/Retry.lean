/-
  Executable model of `ExponentialRetry` (retry.go) and the fatal-error helpers (bigbuff.go) as a
  function over a script of operation outcomes and cancellation points.
-/
namespace BB.Retry

/-- errors: a base error, or `FatalError(inner)` -/
inductive Er | base (id : Nat) | fatal (inner : Er)
deriving DecidableEq, Repr

def isFatal : Er → Bool
  | .fatal _ => true
  | .base _ => false

/-- `unpackFatalError` -/
def unpack : Er → Er
  | .fatal e => unpack e
  | .base i => .base i

def wrap : Nat → Er → Er
  | 0, e => e
  | n + 1, e => .fatal (wrap n e)


/-- one scripted attempt: what the operation returns (result, error) and whether the context is
    cancelled while the operation is running -/
structure Item where
  result : Option Nat
  err : Option Er
  cancelDuring : Bool := false
deriving Repr

inductive Out | nil | ctx | er (e : Er)
deriving DecidableEq, Repr

structure Res where
  result : Option Nat
  err : Out
  calls : Nat
  cs : List Nat          -- the counter passed to the delay calculation before each wait
  exhausted : Bool := false
deriving Repr

def maxShift : Nat := 31

/-- the loop of the function returned by `ExponentialRetry`.  `cancelled`: the context is already
    cancelled; `waitCancel = some k`: the context is cancelled during the k-th wait from now. -/
def retry : List Item → Bool → Option Nat → Nat → Nat → List Nat → Res
  | [], cancelled, _, _, calls, cs =>
    if cancelled then { result := none, err := .ctx, calls := calls, cs := cs }
    else { result := none, err := .nil, calls := calls, cs := cs, exhausted := true }
  | it :: rest, cancelled, waitCancel, c, calls, cs =>
    if cancelled then { result := none, err := .ctx, calls := calls, cs := cs }
    else
      let c' := if c < maxShift then c + 1 else c
      let cancelled' := it.cancelDuring
      match it.err with
      | none => { result := it.result, err := .nil, calls := calls + 1, cs := cs }
      | some e =>
        if isFatal e then { result := it.result, err := .er (unpack e), calls := calls + 1, cs := cs }
        else
          -- plain failure: compute the delay for counter c', wait (cut short by cancellation), loop
          let (cancelled'', waitCancel') := match waitCancel with
            | some 0 => (true, none)
            | some (k + 1) => (cancelled', some k)
            | none => (cancelled', none)
          retry rest cancelled'' waitCancel' c' (calls + 1) (cs ++ [c'])

/-- `calcExponentialRetry(rate, c)` for a random draw `x` (the result of `rand.Int63n(1 << min(c,31))`) -/
def calcDelay (rate : Int) (_c : Nat) (x : Nat) : Int := (x : Int) * rate

def slots (c : Nat) : Nat := 2 ^ (min c maxShift)

/-- is `d` an admissible delay for counter `c` and rate `rate > 0` -/
def validDelay (rate : Int) (c : Nat) (d : Int) : Bool :=
  rate > 0 && d % rate == 0 && 0 ≤ d / rate && d / rate < (slots c : Int)

end BB.Retry
