/-
  Models of the context combinators (context.go) as small transition systems over the semantics of
  `context.AfterFunc` (modelled, not verified): cancelling a context fires every armed registration on
  it, which schedules its callback as a NEW goroutine (a pending task that runs at any later time);
  `stop()` atomically disarms an armed registration and reports whether it did.
-/
namespace BB.Ctx

inductive Reg | armed | fired | stopped
deriving DecidableEq, Repr

/-! ### ChainAfterFunc(ctx, other, f) -/

structure Chain where
  r1 : Reg := .armed        -- AfterFunc(other, f)
  r2 : Reg := .armed        -- AfterFunc(ctx, hook)
  pendF : Nat := 0          -- scheduled runs of f (from r1 firing)
  pendHook : Nat := 0       -- scheduled runs of the hook
  calls : Nat := 0          -- how often f has been called
  otherC : Bool := false
  ctxC : Bool := false
deriving DecidableEq, Repr

inductive ChainAct | cancelOther | cancelCtx | runF | runHook
deriving DecidableEq, Repr

/-- registration on an already-cancelled context fires immediately -/
def Chain.init (otherPre ctxPre : Bool) : Chain :=
  { r1 := if otherPre then .fired else .armed, pendF := if otherPre then 1 else 0,
    r2 := if ctxPre then .fired else .armed, pendHook := if ctxPre then 1 else 0,
    otherC := otherPre, ctxC := ctxPre }

def Chain.step (s : Chain) : ChainAct → Chain
  | .cancelOther =>
    if s.otherC then s
    else if s.r1 = .armed then { s with otherC := true, r1 := .fired, pendF := s.pendF + 1 }
    else { s with otherC := true }
  | .cancelCtx =>
    if s.ctxC then s
    else if s.r2 = .armed then { s with ctxC := true, r2 := .fired, pendHook := s.pendHook + 1 }
    else { s with ctxC := true }
  | .runF => if s.pendF > 0 then { s with pendF := s.pendF - 1, calls := s.calls + 1 } else s
  | .runHook =>
    if s.pendHook > 0 then
      -- `if stop() { f() }`
      if s.r1 = .armed then { s with pendHook := s.pendHook - 1, r1 := .stopped, calls := s.calls + 1 }
      else { s with pendHook := s.pendHook - 1 }
    else s

def Chain.run (s : Chain) (as : List ChainAct) : Chain := as.foldl Chain.step s
def Chain.quiescent (s : Chain) : Bool := s.pendF == 0 && s.pendHook == 0

/-! ### CombineContext(primary, others...) with `n` non-nil live others -/

structure Combine where
  primaryC : Bool := false
  others : List (Bool × Reg)    -- per other context: (cancelled, state of AfterFunc(other_i, cancel))
  resultC : Bool := false
  stopReg : Reg := .armed       -- AfterFunc(result, stops.Stop)
  pendCancel : Nat := 0
  pendStop : Nat := 0
deriving DecidableEq, Repr

inductive CombineAct | cancelPrimary | cancelOther (i : Nat) | runCancel | runStop
deriving DecidableEq, Repr

def Combine.init (n : Nat) : Combine := { others := List.replicate n (false, .armed) }

/-- the result context becomes cancelled: its own AfterFunc registration fires -/
def Combine.cancelResult (s : Combine) : Combine :=
  if s.resultC then s
  else if s.stopReg = .armed then { s with resultC := true, stopReg := .fired, pendStop := s.pendStop + 1 }
  else { s with resultC := true }

def Combine.step (s : Combine) : CombineAct → Combine
  | .cancelPrimary => if s.primaryC then s else Combine.cancelResult { s with primaryC := true }
  | .cancelOther i =>
    match s.others[i]? with
    | some (false, .armed) => { s with others := s.others.set i (true, .fired), pendCancel := s.pendCancel + 1 }
    | some (false, r) => { s with others := s.others.set i (true, r) }
    | _ => s
  | .runCancel => if s.pendCancel > 0 then Combine.cancelResult { s with pendCancel := s.pendCancel - 1 } else s
  | .runStop =>
    if s.pendStop > 0 then
      { s with pendStop := s.pendStop - 1, others := s.others.map (fun p => (p.1, if p.2 = .armed then .stopped else p.2)) }
    else s

def Combine.run (s : Combine) (as : List CombineAct) : Combine := as.foldl Combine.step s
def Combine.quiescent (s : Combine) : Bool := s.pendCancel == 0 && s.pendStop == 0

/-! ### ConflatedContext(inputs...) with `n` live inputs -/

structure Conflated where
  chains : List Chain          -- one ChainAfterFunc(result, input_i, wg.Done) per live input
  wg : Nat                     -- the WaitGroup counter (after the constructor's own Done)
  resultC : Bool := false
  waiterExited : Bool := false
  cancelFn : Bool := false
deriving DecidableEq, Repr

inductive ConflatedAct | cancelInput (i : Nat) | cancelFn | runF (i : Nat) | runHook (i : Nat) | waiter
deriving DecidableEq, Repr

def Conflated.init (n : Nat) : Conflated := { chains := List.replicate n (Chain.init false false), wg := n }

/-- the result becomes cancelled: every chain's primary context is cancelled -/
def Conflated.cancelResult (s : Conflated) : Conflated :=
  if s.resultC then s else { s with resultC := true, chains := s.chains.map (·.step .cancelCtx) }

def Conflated.step (s : Conflated) : ConflatedAct → Conflated
  | .cancelInput i =>
    match s.chains[i]? with
    | some c => { s with chains := s.chains.set i (c.step .cancelOther) }
    | none => s
  | .cancelFn => Conflated.cancelResult { s with cancelFn := true }
  | .runF i =>
    match s.chains[i]? with
    | some c => if c.pendF > 0 then { s with chains := s.chains.set i (c.step .runF), wg := s.wg - 1 } else s
    | none => s
  | .runHook i =>
    match s.chains[i]? with
    | some c =>
      if c.pendHook > 0 then
        { s with chains := s.chains.set i (c.step .runHook), wg := if c.r1 = .armed then s.wg - 1 else s.wg }
      else s
    | none => s
  | .waiter => if s.wg = 0 && !s.waiterExited then Conflated.cancelResult { s with waiterExited := true } else s

def Conflated.run (s : Conflated) (as : List ConflatedAct) : Conflated := as.foldl Conflated.step s
def Conflated.quiescent (s : Conflated) : Bool :=
  s.chains.all Chain.quiescent && (s.wg != 0 || s.waiterExited)

end BB.Ctx
