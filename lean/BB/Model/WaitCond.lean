/-
  Model of `WaitCond` (sync.go) over the modelled semantics of `sync.Cond`:
  `Wait` atomically enqueues the caller on the cond's notify list and releases the locker, and returns
  only after a notification and re-acquiring the locker; `Broadcast` notifies everybody enqueued.

  One waiter (the WaitCond call under study, holding the locker `L` on entry), its watcher goroutine,
  and an environment of any number of other threads that — always as one critical section of `L` —
  change the predicate and broadcast (or, for a faulty mutator, do not broadcast: `Cfg`), plus the
  cancellation of the context at any time.  Other waiters on the same cond only add notifications and
  are covered by `spurious` (a parked waiter may be woken at any time).
-/
import BB.Core.LTS

namespace BB.WaitCond

/-- which mechanisms the code has (regenerated from the source by the T1 facts in BB/Conform/WaitCond.lean) -/
structure Cfg where
  watcherLocks : Bool := true          -- the watcher takes L before broadcasting
  mutatorBroadcasts : Bool := true     -- a thread that makes the predicate true broadcasts in the same critical section
  ctxCheckedEveryIteration : Bool := true
deriving DecidableEq, Repr

inductive Pc
  | top                 -- holds L, about to check ctx.Err()
  | pred                -- holds L, about to evaluate the predicate
  | parked              -- inside cond.Wait, L released, not yet notified
  | notified            -- inside cond.Wait, notified, must re-acquire L
  | retNil | retErr     -- returned (L held again, as on entry)
deriving DecidableEq, Repr

inductive WPc            -- the watcher goroutine
  | unborn              -- not spawned yet
  | waitDone            -- blocked on <-ctx.Done()
  | wantLock            -- ctx done, about to lock L
  | locked              -- holds L (or not, if the code does not lock), about to broadcast
  | done
deriving DecidableEq, Repr

inductive Holder | free | waiter | watcher
deriving DecidableEq, Repr

structure St where
  pc : Pc := .top
  w : WPc := .unborn
  lock : Holder := .waiter     -- WaitCond is called with L held
  p : Bool := false            -- current value of the predicate (state guarded by L)
  cancelled : Bool := false    -- the context passed to WaitCond is cancelled
  derivedCancelled : Bool := false  -- the derived context (cancelled with the parent, or by the deferred cancel on return)
  unlocked : Bool := false     -- the caller released L after the return
deriving DecidableEq, Repr

inductive Act
  | cancel              -- environment: the context is cancelled
  | mutate (v : Bool)   -- environment: some thread, in one critical section of L, sets the predicate (and broadcasts)
  | spurious            -- environment: another broadcast on the same cond
  | step                -- the waiter's next step
  | unlock              -- after WaitCond returned, its caller releases L
  | wstep               -- the watcher's next step
deriving DecidableEq, Repr

def notify (s : St) : St := if s.pc = .parked then { s with pc := .notified } else s

def step (cfg : Cfg) (s : St) : Act → Option St
  | .cancel => some { s with cancelled := true, derivedCancelled := true }
  | .mutate v =>
    if s.lock = .free then
      let s' := { s with p := v }
      some (if cfg.mutatorBroadcasts then notify s' else s')
    else none
  | .spurious => some (notify s)
  | .step =>
    match s.pc with
    | .top =>
      if s.cancelled && (cfg.ctxCheckedEveryIteration || s.w = .unborn) then
        some { s with pc := .retErr, derivedCancelled := true }
      else some { s with pc := .pred, w := if s.w = .unborn then .waitDone else s.w }
    | .pred => if s.p then some { s with pc := .retNil, derivedCancelled := true }
               else some { s with pc := .parked, lock := .free }      -- cond.Wait: enqueue + unlock, atomically
    | .parked => none
    | .notified => if s.lock = .free then some { s with pc := .top, lock := .waiter } else none
    | .retNil | .retErr => none
  | .unlock =>
    if (s.pc = .retNil || s.pc = .retErr) && !s.unlocked then some { s with lock := .free, unlocked := true } else none
  | .wstep =>
    match s.w with
    | .unborn => none
    | .waitDone => if s.derivedCancelled then some { s with w := .wantLock } else none
    | .wantLock =>
      if cfg.watcherLocks then (if s.lock = .free then some { s with w := .locked, lock := .watcher } else none)
      else some { s with w := .locked }
    | .locked =>
      let s' := notify s
      some { s' with w := .done, lock := if s.lock = .watcher then .free else s.lock }
    | .done => none

def sys (cfg : Cfg) : LTS.Sys St Act := { init := {}, step := step cfg }

def good : Cfg := {}

end BB.WaitCond
