/-
  Model of the goroutines a Buffer owns and of their exit when the Buffer is closed (buffer.go `cleanup`,
  sync.go `WaitCond`): the cleanup goroutine (CG) looping inside WaitCond on the buffer context, CG's
  WaitCond watcher goroutine (W), and the cooldown timer goroutine (TG).  "Close" cancels the buffer
  context.  The question of C12: after Close, do all three exit using scheduler steps only — without
  waiting for a timer to expire?
-/
import BB.Core.LTS

namespace BB.Lifecycle

structure Cfg where
  timerSelectsCtx : Bool := true     -- the timer goroutine also selects on the buffer context (fix F3)
  watcherLocks : Bool := true
deriving DecidableEq, Repr

inductive CG | top | pred | parked | notified | exited
deriving DecidableEq, Repr
inductive W | waitDone | wantLock | locked | done
deriving DecidableEq, Repr
inductive TG | none | waiting | fired | locked
deriving DecidableEq, Repr
inductive Holder | free | cg | w | tg
deriving DecidableEq, Repr

structure St where
  cg : CG := .pred            -- holds the buffer mutex, evaluating the cleanup func
  w : W := .waitDone          -- CG's WaitCond watcher (spawned on the first iteration)
  tg : TG := .none
  bm : Holder := .cg
  closed : Bool := false      -- buffer context cancelled (Buffer.Close)
  derived : Bool := false     -- WaitCond's derived context cancelled (parent cancelled, or deferred cancel on return)
  fires : Nat := 0            -- ghost: timer expiries after Close (saturating at 2)
deriving DecidableEq, Repr

inductive Act
  | close           -- Buffer.Close cancels the context
  | change          -- a mutator's critical section + broadcast (only before close; Put etc. fail afterwards but still may broadcast)
  | cgStep | wStep | tgStep
  | fire
deriving DecidableEq, Repr

def notify (s : St) : St := if s.cg = .parked then { s with cg := .notified } else s

def step (cfg : Cfg) (s : St) : Act → Option St
  | .close => some { s with closed := true, derived := true }
  | .change => if s.bm = .free then some (notify s) else none
  | .cgStep =>
    match s.cg with
    | .top => if s.closed then some { s with cg := .exited, bm := .free, derived := true }   -- WaitCond returns the error; cleanup unlocks and ends
              else some { s with cg := .pred }
    | .pred =>
      -- the cleanup func runs; it may start a cooldown timer goroutine; then cond.Wait
      some { s with cg := .parked, bm := .free, tg := if s.tg = .none then .waiting else s.tg }
    | .parked => none
    | .notified => if s.bm = .free then some { s with cg := .top, bm := .cg } else none
    | .exited => none
  | .wStep =>
    match s.w with
    | .waitDone => if s.derived then some { s with w := .wantLock } else none
    | .wantLock =>
      if cfg.watcherLocks then (if s.bm = .free then some { s with w := .locked, bm := .w } else none)
      else some { s with w := .locked }
    | .locked => some { (notify s) with w := .done, bm := if s.bm = .w then .free else s.bm }
    | .done => none
  | .fire => if s.tg = .waiting then some { s with tg := .fired, fires := if s.closed then min (s.fires + 1) 2 else s.fires } else none
  | .tgStep =>
    match s.tg with
    | .waiting => if cfg.timerSelectsCtx && s.closed then some { s with tg := .fired } else none   -- select took <-b.ctx.Done()
    | .fired => if s.bm = .free then some { s with tg := .locked, bm := .tg } else none
    | .locked => some { (notify s) with tg := .none, bm := .free }
    | .none => none

def sys (cfg : Cfg) : LTS.Sys St Act := { init := {}, step := step cfg }

def allGone (s : St) : Bool := s.cg == .exited && s.w == .done && s.tg == .none

end BB.Lifecycle
