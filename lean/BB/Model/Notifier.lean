/-
  Model of `Notifier` (notifier.go).
  * registry: subscriptions `(key, id)` with element type class and context state;
  * `PublishContext`'s loop, faithfully: `successCases` (subscriber ids), `failureCases` (ids whose
    context guards them), `failureRefs` (index into successCases), and one loop iteration for an
    arbitrary outcome of `reflect.Select`.
-/
namespace BB.Notifier

/-- what reflect.Select reported: index into exitCases ++ failureCases ++ successCases -/
structure Loop where
  exitN : Nat               -- 1 if the publish context is non-nil, else 0
  succ  : List Nat          -- successCases (subscriber ids), in the order built from the map iteration
  fail  : List Nat          -- failureCases (subscriber ids)
  refs  : List Nat          -- failureRefs
  delivered : List Nat := [] -- ghost: ids that received the value, in order
  cancelled : List Nat := [] -- ghost: ids removed because their context fired
deriving Repr, DecidableEq

/-- build the three slices from the eligible subscribers in iteration order: `(id, hasCtx)` -/
def buildFrom (off : Nat) : List (Nat × Bool) → List Nat × List Nat × List Nat
  | [] => ([], [], [])
  | (id, c) :: rest =>
    let (s, f, r) := buildFrom (off + 1) rest
    (id :: s, if c then id :: f else f, if c then off :: r else r)

def build (exitN : Nat) (subs : List (Nat × Bool)) : Loop :=
  let (s, f, r) := buildFrom 0 subs
  { exitN := exitN, succ := s, fail := f, refs := r }

/-- `for i := len(refs)-1; i >= 0; i-- { if refs[i] <= k { break }; refs[i]-- }` on the reversed list -/
def decRev (k : Nat) : List Nat → List Nat
  | [] => []
  | r :: rest => if r ≤ k then r :: rest else (r - 1) :: decRev k rest

def decLoop (k : Nat) (refs : List Nat) : List Nat := (decRev k refs.reverse).reverse

inductive StepR | exit | continue_ (l : Loop) | bad    -- bad: an index out of range (a Go panic)
deriving Repr, DecidableEq

/-- one iteration of the publish loop for select outcome `idx` -/
def iter (l : Loop) (idx : Nat) : StepR :=
  if idx < l.exitN then .exit
  else
    let failureIndex := idx - l.exitN
    if failureIndex < l.fail.length then
      -- a subscriber context fired
      match l.refs[failureIndex]? with
      | none => .bad
      | some successIndex =>
        match l.succ[successIndex]? with
        | none => .bad
        | some id =>
          .continue_ { l with
            succ := l.succ.eraseIdx successIndex
            fail := l.fail.eraseIdx failureIndex
            refs := (decLoop successIndex l.refs).eraseIdx failureIndex
            cancelled := l.cancelled ++ [id] }
    else
      let successIndex := failureIndex - l.fail.length
      match l.succ[successIndex]? with
      | none => .bad
      | some id =>
        let refs' := decLoop successIndex l.refs
        match l.refs.idxOf? successIndex with
        | none => .continue_ { l with succ := l.succ.eraseIdx successIndex, refs := refs', delivered := l.delivered ++ [id] }
        | some fi => .continue_ { l with
            succ := l.succ.eraseIdx successIndex
            fail := l.fail.eraseIdx fi
            refs := refs'.eraseIdx fi
            delivered := l.delivered ++ [id] }

/-! ### registry + abstract publish (what the oracle replays) -/

structure Sub where
  key : Nat
  id : Nat
  elem : Nat          -- element type class (index into the harness' type list)
  hasCtx : Bool
  ctxCancelled : Bool := false
deriving Repr, DecidableEq

structure Pub where
  hasCtx : Bool
  pending : List Nat    -- ids still to be served
  guarded : List Nat    -- pending ids whose context guards them
deriving Repr, DecidableEq

structure St where
  subs : List Sub := []
  pub : Option Pub := none
deriving Repr

def subscribe (s : St) (x : Sub) : Option St :=
  if s.subs.any (fun y => y.key == x.key && y.id == x.id) then none   -- panic, registry unchanged
  else some { s with subs := s.subs ++ [x] }

def unsubscribe (s : St) (key id : Nat) : Option St :=
  if s.subs.any (fun y => y.key == key && y.id == id) then
    some { s with subs := s.subs.filter (fun y => !(y.key == key && y.id == id)) }
  else none

/-- the eligible subscriptions of a publish: same key, context not cancelled, element type accepts -/
def eligible (s : St) (key : Nat) (accepts : Nat → Bool) : List Sub :=
  s.subs.filter (fun y => y.key == key && !(y.hasCtx && y.ctxCancelled) && accepts y.elem)

end BB.Notifier
