/-
  Protocol model of ChanPubSub (chanpubsub.go) on top of the ChanCaster word model, at the granularity of the
  individual lock, atomic and channel operations, for unbounded populations of senders and subscribers.
  Subscribers follow the documented contract: subscribe (Add(+1)), then repeatedly receive-then-Wait, and
  unsubscribe (Add(-1)) only between rounds (never between a receive and its Wait); no receive while unsubscribing.
  `SubscribeContext` iterators, context cancellation, early exit and never-run iterators are such sequences.
  The embedded caster's own RWMutex is not modelled: only the holder of `sendMu` (a single sender) ever takes it.
-/
import BB.Core.LTS
import BB.Core.Fun
import BB.Model.CasterWord

namespace BB.PubSub
open BB.Fun BB.Caster

inductive UPc
  | out           -- not subscribed
  | subRlocked    -- Add(+1): holds sendingMu.RLock, before the atomic increment
  | subAdded      -- incremented, before RUnlock
  | idle          -- subscribed, between rounds: may receive, or start to unsubscribe
  | got           -- received a value; inside / about to call Wait, pong not yet consumed
  | tryFailed     -- Add(-1): TryRLock failed; about to ask the caster (ping.Add(0))
  | unsubLocked   -- Add(-1): TryRLock succeeded; before the atomic decrement
  | unsubDec      -- decremented under the read lock; before RUnlock
  | sawPing       -- Add(-1): lock not obtained and the caster is non-zero; before the atomic decrement
  | decNoLock     -- decremented without the lock; before ping.Add(-1)
  | absorbing     -- ping.Add(-1) landed during the send phase: receiving one value itself
deriving DecidableEq, Repr

structure Sub where
  pc : UPc := .out
  owes : Bool := false       -- ghost: counted in the caster word of the Send in progress, neither served nor removed yet
  got : List Nat := []       -- values received (and acknowledged), in order
  cur : Nat := 0             -- the value just received (pc = got)
  since : Nat := 0           -- ghost: number of Sends that had returned when the subscription was made
  nextSeq : Nat := 0         -- ghost: position (1-based) in the global order `log` of the next message this subscription is to see
deriving DecidableEq, Repr

inductive SPc
  | idle | wantSendMu | wantSending | holding | counted | added | loaded | sending | checked | released | ponging | unlocking | done
deriving DecidableEq, Repr

structure Sender where
  pc : SPc := .idle
  val : Nat := 0
  n : Nat := 0               -- subscribers read under the lock
  snap : Nat := 0            -- caster word loaded in the CAS loop
  armedN : Nat := 0          -- `receivers` of ping.Send
  k : Nat := 0               -- sends performed
  sent : Nat := 0            -- result of ping.Send
  ret : Option Nat := none
deriving DecidableEq, Repr

structure St where
  subsCount : Nat := 0                 -- x.subscribers
  word : Nat := 0                      -- x.ping.state
  sendMu : Bool := false
  sendingW : Bool := false             -- sendingMu write-held
  pongN : Nat := 0
  subs : Nat → Sub := fun _ => {}
  nSubs : Nat := 0
  senders : Nat → Sender := fun _ => {}
  panicked : Bool := false
  log : List Nat := []                 -- ghost: values of the Sends that reached their send phase, in order
  returned : Nat := 0                  -- ghost: number of Sends that have returned
  delivered : Nat := 0                 -- ghost: values of the Send in progress received by subscribers

/-- nobody is inside a read-locked section of sendingMu -/
def noReaders (s : St) : Bool :=
  (List.range s.nSubs).all fun t =>
    let pc := (s.subs t).pc
    pc != .subRlocked && pc != .subAdded && pc != .unsubLocked && pc != .unsubDec

/-- some sender holds sendMu and is at or past wanting sendingMu but has not yet released it (TryRLock fails then) -/
def writerPendingOrHolding (pc : SPc) : Bool :=
  pc == .wantSending || pc == .holding || pc == .counted || pc == .added || pc == .loaded || pc == .sending || pc == .checked

inductive Act
  | subLock (t : Nat) | subInc (t : Nat) | subUnlock (t : Nat)
  | recv (a t : Nat)                   -- rendezvous: sender a sends, subscriber t receives
  | consume (t : Nat)                  -- Wait: consume a pong
  | tryOk (t : Nat) | tryFail (t : Nat) | pingZero (t : Nat) | pingNonZero (t : Nat)
  | unsubDecL (t : Nat) | unsubUnlock (t : Nat) | unsubDecN (t : Nat) | pingSub (t : Nat)
  | absorb (a t : Nat)                 -- rendezvous: sender a sends, the ping.Add(-1) of t receives
  | sbegin (a v : Nat) | sendMu (a : Nat) | sending (a : Nat) | count (a : Nat) | pingAdd (a : Nat)
  | cfast (a : Nat) | cload (a : Nat) | ccas (a : Nat) | cfinal (a : Nat) | unsending (a : Nat)
  | pong (a : Nat) | ponged (a : Nat) | sdone (a : Nat)
deriving Repr

def setSub (s : St) (t : Nat) (u : Sub) : St := { s with subs := upd s.subs t u }
def setSender (s : St) (a : Nat) (x : Sender) : St := { s with senders := upd s.senders a x }

/-- `ping.Add(-1)` on the caster word (kept opaque to the elaborator: proofs use `subOne_eq`) -/
@[irreducible] def subOne (w : Nat) : AddOut := add w (-((1 : Nat) : Int))
theorem subOne_eq (w : Nat) : subOne w = add w (-((1 : Nat) : Int)) := by unfold subOne; rfl

/-- ghost: every subscriber counted in `subscribers` owes one receive-or-remove to the Send that just added them to the caster -/
def markOwes (s : St) : Nat → Sub := fun t =>
  if (s.subs t).pc = .idle ∨ (s.subs t).pc = .tryFailed ∨ (s.subs t).pc = .sawPing then { s.subs t with owes := true } else s.subs t

def step (s : St) : Act → Option St
  -- ---- subscribe
  | .subLock t =>
    let u := s.subs t
    if u.pc = .out ∧ s.sendingW = false ∧ t ≤ s.nSubs ∧ s.panicked = false then
      some { setSub s t { u with pc := .subRlocked } with nSubs := if t = s.nSubs then s.nSubs + 1 else s.nSubs }
    else none
  | .subInc t =>
    let u := s.subs t
    if u.pc = .subRlocked ∧ s.subsCount < MAXR then
      some { setSub s t { u with pc := .subAdded, since := s.returned, nextSeq := s.log.length + 1 } with subsCount := s.subsCount + 1 }
    else none
  | .subUnlock t =>
    let u := s.subs t
    if u.pc = .subAdded then some (setSub s t { u with pc := .idle }) else none
  -- ---- receive / Wait
  | .recv a t =>
    let x := s.senders a
    let u := s.subs t
    if x.pc = .sending ∧ x.k < x.armedN ∧ u.pc = .idle then
      some { setSender (setSub s t { u with pc := .got, cur := x.val, owes := false, nextSeq := s.log.length + 1 }) a { x with k := x.k + 1 } with delivered := s.delivered + 1 }
    else none
  | .consume t =>
    let u := s.subs t
    if u.pc = .got ∧ 0 < s.pongN then
      some { setSub s t { u with pc := .idle, got := u.got ++ [u.cur] } with pongN := s.pongN - 1 }
    else none
  -- ---- unsubscribe
  | .tryOk t =>
    let u := s.subs t
    if (u.pc = .idle ∨ u.pc = .tryFailed) ∧ s.sendingW = false then some (setSub s t { u with pc := .unsubLocked }) else none
  | .tryFail t =>
    let u := s.subs t
    if u.pc = .idle ∨ u.pc = .tryFailed then some (setSub s t { u with pc := .tryFailed }) else none
  | .pingZero t =>        -- ping.Add(0) == 0: spin
    let u := s.subs t
    if u.pc = .tryFailed ∧ s.panicked = false then
      match add s.word 0 with
      | .ok _ r _ => if r = 0 then some s else none
      | .panic _ => some { s with panicked := true }
    else none
  | .pingNonZero t =>
    let u := s.subs t
    if u.pc = .tryFailed ∧ s.panicked = false then
      match add s.word 0 with
      | .ok _ r _ => if r ≠ 0 then some (setSub s t { u with pc := .sawPing }) else none
      | .panic _ => some { s with panicked := true }
    else none
  | .unsubDecL t =>
    let u := s.subs t
    if u.pc = .unsubLocked ∧ 0 < s.subsCount then
      some { setSub s t { u with pc := .unsubDec } with subsCount := s.subsCount - 1 }
    else none
  | .unsubUnlock t =>
    let u := s.subs t
    if u.pc = .unsubDec then some (setSub s t { u with pc := .out }) else none
  | .unsubDecN t =>
    let u := s.subs t
    if u.pc = .sawPing ∧ 0 < s.subsCount then
      some { setSub s t { u with pc := .decNoLock } with subsCount := s.subsCount - 1 }
    else none
  | .pingSub t =>
    let u := s.subs t
    if u.pc = .decNoLock ∧ s.panicked = false then
      match subOne s.word with
      | .ok w _ ab =>
        if ab = 0 then some { setSub s t { u with pc := .out, owes := false } with word := w }
        else some { setSub s t { u with pc := .absorbing, owes := false } with word := w }
      | .panic w => some { s with word := w, panicked := true }
    else none
  | .absorb a t =>
    let x := s.senders a
    let u := s.subs t
    if x.pc = .sending ∧ x.k < x.armedN ∧ u.pc = .absorbing then
      some (setSender (setSub s t { u with pc := .out }) a { x with k := x.k + 1 })
    else none
  -- ---- Send
  | .sbegin a v =>
    let x := s.senders a
    if x.pc = .idle ∧ s.panicked = false then
      if s.subsCount = 0 then some { setSender s a { x with pc := .done, val := v, ret := some 0 } with returned := s.returned + 1 }
      else some (setSender s a { x with pc := .wantSendMu, val := v })
    else none
  | .sendMu a =>
    let x := s.senders a
    if x.pc = .wantSendMu ∧ s.sendMu = false then some { setSender s a { x with pc := .wantSending } with sendMu := true } else none
  | .sending a =>
    let x := s.senders a
    if x.pc = .wantSending ∧ s.sendingW = false ∧ noReaders s = true then
      some { setSender s a { x with pc := .holding } with sendingW := true }
    else none
  | .count a =>
    let x := s.senders a
    if x.pc = .holding then
      if s.subsCount = 0 then
        some { setSender s a { x with pc := .done, ret := some 0 } with sendingW := false, sendMu := false, returned := s.returned + 1 }
      else some (setSender s a { x with pc := .counted, n := s.subsCount })
    else none
  | .pingAdd a =>
    let x := s.senders a
    if x.pc = .counted ∧ s.panicked = false then
      match add s.word (x.n : Int) with
      | .ok w r _ =>
        if r = x.n then
          -- ghost: every subscriber counted in `subscribers` now owes one receive-or-remove
          some (setSender { s with word := w, delivered := 0, subs := markOwes s } a { x with pc := .added })
        else some { s with word := w, panicked := true }
      | .panic w => some { s with word := w, panicked := true }
    else none
  | .cfast a =>          -- ping.Send's fast path load
    let x := s.senders a
    if x.pc = .added then
      if s.word = 0 then some (setSender s a { x with pc := .checked, sent := 0 }) else some (setSender s a { x with pc := .loaded, snap := 0 })
    else none
  | .cload a =>
    let x := s.senders a
    if x.pc = .loaded ∧ x.snap = 0 ∧ s.panicked = false then
      match arm s.word with
      | .zero => some (setSender s a { x with pc := .checked, sent := 0 })
      | .panic => some { s with panicked := true }
      | .armed _ _ => some (setSender s a { x with snap := s.word })
    else none
  | .ccas a =>
    let x := s.senders a
    if x.pc = .loaded ∧ x.snap ≠ 0 then
      if s.word = x.snap then
        match arm x.snap with
        | .armed w n => some { setSender s a { x with pc := .sending, armedN := n, k := 0 } with word := w, log := s.log ++ [x.val] }
        | _ => none
      else some (setSender s a { x with snap := 0 })
    else none
  | .cfinal a =>
    let x := s.senders a
    if x.pc = .sending ∧ x.k = x.armedN ∧ s.panicked = false then
      match finish s.word x.armedN with
      | some t => some { setSender s a { x with pc := .checked, sent := t } with word := 0 }
      | none => some { s with panicked := true }
    else none
  | .unsending a =>
    let x := s.senders a
    if x.pc = .checked then some { setSender s a { x with pc := .released } with sendingW := false } else none
  | .pong a =>
    let x := s.senders a
    if x.pc = .released then
      if x.sent = 0 then some (setSender s a { x with pc := .ponging })      -- nothing to wait for
      else if s.pongN = 0 then some { setSender s a { x with pc := .ponging } with pongN := x.sent } else none
    else none
  | .ponged a =>
    let x := s.senders a
    if x.pc = .ponging ∧ s.pongN = 0 then some (setSender s a { x with pc := .unlocking, ret := some x.sent }) else none
  | .sdone a =>
    let x := s.senders a
    if x.pc = .unlocking then some { setSender s a { x with pc := .done } with sendMu := false, returned := s.returned + 1 } else none

def sys : LTS.Sys St Act := { init := {}, step := step }

end BB.PubSub
