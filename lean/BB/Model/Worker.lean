/-
  Model of `Worker` (worker.go) as a transition system at the granularity of the critical sections of
  `Worker.mu` plus the watcher's unlocked wait.  Wait groups are numbered in creation order;
  `cnt[id]` is the number of outstanding holders of wait group `id`.
-/
import BB.Core.LTS

namespace BB.Worker

inductive WPc
  | top                 -- watcher at the top of its loop (needs the mutex)
  | waiting (id : Nat)  -- watcher in `wg.Wait()` on wait group `id`, mutex released
  | stopping            -- watcher decided to stop: holds the mutex, `stop` is closed, waits for `done`
deriving DecidableEq, Repr

structure St where
  cnt      : List Nat := []          -- outstanding holders per wait group
  wgCur    : Option Nat := none      -- `x.wg`
  inst     : Bool := false           -- an instance exists (`x.stop`/`x.done` non-nil)
  stopClosed : Bool := false
  fnReturned : Bool := false         -- the instance's function has returned (done closed)
  watcher  : Option WPc := none
  live     : Nat := 0                -- ghost: function goroutines started and not yet returned
  started  : Nat := 0                -- ghost: instances started so far
deriving DecidableEq, Repr

inductive Act
  | do_                 -- a `Do` call's critical section; the returned done func is bound to wait group `wgCur`
  | done (id : Nat)     -- a holder calls its done func
  | take                -- watcher at top takes the current wait group (or decides to stop and closes `stop`)
  | waited              -- watcher's `wg.Wait()` returned
  | fnReturn            -- the instance's function returns (`close(done)`)
  | finish              -- watcher saw `done`, clears stop/done, releases the mutex and exits
deriving DecidableEq, Repr

def muHeld (s : St) : Bool := s.watcher == some .stopping

def step (s : St) : Act → Option St
  | .do_ =>
    if muHeld s then none else
    let s1 := if s.inst then s else
      { s with inst := true, stopClosed := false, fnReturned := false, watcher := some .top,
               live := s.live + 1, started := s.started + 1 }
    match s1.wgCur with
    | some id => some { s1 with cnt := s1.cnt.set id (s1.cnt[id]?.getD 0 + 1) }
    | none => some { s1 with wgCur := some s1.cnt.length, cnt := s1.cnt ++ [1] }
  | .done id =>
    match s.cnt[id]? with
    | some (n + 1) => some { s with cnt := s.cnt.set id n }
    | _ => none
  | .take =>
    if s.watcher = some .top then
      match s.wgCur with
      | some id => some { s with wgCur := none, watcher := some (.waiting id) }
      | none => some { s with watcher := some .stopping, stopClosed := true }
    else none
  | .waited =>
    match s.watcher with
    | some (.waiting id) => if s.cnt[id]? = some 0 then some { s with watcher := some .top } else none
    | _ => none
  | .fnReturn =>
    -- contract: the function returns only after it saw `stop` closed
    if s.inst && !s.fnReturned && s.stopClosed then some { s with fnReturned := true, live := s.live - 1 } else none
  | .finish =>
    if s.watcher = some .stopping && s.fnReturned then
      some { s with inst := false, watcher := none, stopClosed := false, fnReturned := false }
    else none

def sys : LTS.Sys St Act := { init := {}, step := step }

/-- some done function is still outstanding -/
def held (s : St) : Bool := s.cnt.any (· > 0)

end BB.Worker
