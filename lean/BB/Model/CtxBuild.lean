/-
  The CONSTRUCTION of the context combinators (context.go), with cancellations landing *during* the constructor call.

  A constructor observes its inputs only through `Err()` (the pre-checks) and through the registration itself
  (`context.AfterFunc`, which fires at once on an already-cancelled context).  The environment may cancel any input at any
  moment; the moments that matter are "before the `Err()` call on position j returns".  `trig j` lists the positions that get
  cancelled at that moment (the harness realises this with a context type whose first `Err()` call cancels the listed
  contexts before it reads its own state).

  The result of a construction is expressed in terms of the post-construction models of `BB/Model/Ctx.lean`:
  `Combine.init n` / `Conflated.init n` followed by the cancel actions of the inputs that were cancelled after their
  pre-check but before / at their registration (registering on a cancelled context = registering, then cancelling).
-/
import BB.Model.Ctx

namespace BB.Ctx

/-- an input context: nil, one that can never be cancelled (`Done() == nil`: Background, TODO, WithoutCancel, values on top
    of those), a live cancellable one, or an already cancelled one -/
inductive In | nil | never | live | dead
deriving DecidableEq, Repr

def In.cancel : In → In
  | .live => .dead
  | x => x

def cancelAt (l : List In) (k : Nat) : List In :=
  match l[k]? with
  | some x => l.set k x.cancel
  | none => l

def cancelAll (l : List In) (ks : List Nat) : List In := ks.foldl cancelAt l

structure Ins where
  prim : In
  others : List In
deriving DecidableEq, Repr

/-- cancel the listed positions; position `others.length` addresses the primary -/
def Ins.cancel (x : Ins) (ks : List Nat) : Ins :=
  { prim := if ks.contains x.others.length then x.prim.cancel else x.prim, others := cancelAll x.others ks }

/-! ### CombineContext(primary, others...) -/

inductive CombineBuilt
  | same (x : Ins)                 -- returned the primary itself
  | cancelledChild (x : Ins)       -- returned a child of the primary that is cancelled at once
  | wired (x : Ins) (n : Nat) (pre : List CombineAct)   -- `Combine.init n` followed by `pre`
deriving Repr

/-- the pre-check loop: `Err()` on every non-nil other in order; stops at the first cancelled one -/
def combineScan (trig : Nat → List Nat) (x : Ins) : List Nat → Ins × Bool
  | [] => (x, false)
  | j :: js =>
    match x.others[j]? with
    | none | some .nil => combineScan trig x js
    | some _ =>
      let x' := x.cancel (trig j)
      if x'.others[j]? = some .dead then (x', true) else combineScan trig x' js

/-- index among the non-nil others of script position j -/
def liveIndex (l : List In) (j : Nat) : Nat := ((l.take j).filter (· ≠ .nil)).length

/-- after the primary's own check -/
def combineBuild1 (x1 : Ins) (trig : Nat → List Nat) : CombineBuilt :=
  if x1.prim = .dead then .same x1
  else if (combineScan trig x1 (List.range x1.others.length)).2 = true then
    .cancelledChild (combineScan trig x1 (List.range x1.others.length)).1
  else if (combineScan trig x1 (List.range x1.others.length)).1.others.all (· = .nil) then
    .same (combineScan trig x1 (List.range x1.others.length)).1
  else
    -- registration: every other that was cancelled after its pre-check fires at once; a primary cancelled meanwhile
    -- cancels the child at creation
    let x2 := (combineScan trig x1 (List.range x1.others.length)).1
    .wired x2 ((x2.others.filter (· ≠ .nil)).length)
      (((List.range x2.others.length).filter (fun j => x2.others[j]? = some .dead)).map
          (fun j => CombineAct.cancelOther (liveIndex x2.others j)) ++
        (if x2.prim = .dead then [CombineAct.cancelPrimary] else []))

def combineBuild (x : Ins) (trigP : List Nat) (trig : Nat → List Nat) : CombineBuilt :=
  combineBuild1 (if x.prim = .nil then x else x.cancel trigP) trig

/-! ### ConflatedContext(inputs...) -/

inductive ConflBuilt
  | allCancelled (l : List In)                                   -- nothing was live: the result is cancelled at once
  | wired (l : List In) (idx : List (Option Nat)) (n : Nat) (pre : List ConflatedAct)
deriving Repr

/-- the wiring loop: for position i, `Err()` (after the cancellations scheduled for that moment); a live or
    never-cancellable input gets the next chain; an input cancelled after it was wired fires its chain -/
def conflScan (trig : Nat → List Nat) : List Nat → List In → List (Option Nat) → Nat → List ConflatedAct →
    List In × List (Option Nat) × Nat × List ConflatedAct
  | [], l, idx, n, pre => (l, idx, n, pre)
  | i :: is, l, idx, n, pre =>
    let l' := cancelAll l (trig i)
    -- inputs already wired that have just been cancelled
    let fired := (trig i).filterMap (fun k => match idx[k]?, l[k]?, l'[k]? with
      | some (some c), some .live, some .dead => some (ConflatedAct.cancelInput c)
      | _, _, _ => none)
    match l'[i]? with
    | some .live | some .never => conflScan trig is l' (idx ++ [some n]) (n + 1) (pre ++ fired)
    | _ => conflScan trig is l' (idx ++ [none]) n (pre ++ fired)

def conflBuild (l : List In) (trig : Nat → List Nat) : ConflBuilt :=
  let r := conflScan trig (List.range l.length) l [] 0 []
  if r.2.2.1 = 0 then .allCancelled r.1 else .wired r.1 r.2.1 r.2.2.1 r.2.2.2

end BB.Ctx
