/-
  Executable model of `Channel` (channel.go): a consumer over a source channel.  One step = one
  critical section of `Channel.mutex`.  Ghosts: `taken` (everything received from the source, in
  order), `committed` (everything dropped by Commit, in order), `sent` (everything ever sent).
-/
namespace BB.Channel

structure St where
  src       : List Nat := []     -- values queued in the source channel (FIFO)
  srcClosed : Bool := false
  buffer    : List Nat := []     -- `Channel.buffer`: received, not yet committed
  rollback  : Nat := 0           -- `Channel.rollback`: how many of the newest buffer entries must be re-read
  closed    : Bool := false      -- `Channel.ctx` cancelled (Close called or parent context cancelled)
  taken     : List Nat := []     -- ghost
  committed : List Nat := []     -- ghost
  sent      : List Nat := []     -- ghost
deriving Repr, Inhabited

inductive Err | canceled | nothingToCommit | nothingToRollback | once
deriving DecidableEq, Repr

inductive GetR | val (v : Nat) | blocked | err (e : Err)
deriving DecidableEq, Repr

def pending (s : St) : Nat := s.buffer.length - s.rollback

/-- environment: a producer sends on the source channel -/
def send (s : St) (v : Nat) : St :=
  if s.srcClosed then s else { s with src := s.src ++ [v], sent := s.sent ++ [v] }

def closeSrc (s : St) : St := { s with srcClosed := true }

/-- one poll of `Channel.Get` (the body under the mutex); `blocked` = nothing available: the real
    call keeps polling until its context is cancelled -/
def getOp (s : St) : St × GetR :=
  if s.closed then (s, .err .canceled)
  else if s.rollback > 0 then
    match s.buffer[s.buffer.length - s.rollback]? with
    | some v => ({ s with rollback := s.rollback - 1 }, .val v)
    | none => (s, .blocked)   -- unreachable under the invariant `rollback ≤ buffer.length`
  else match s.src with
    | v :: rest => ({ s with src := rest, buffer := s.buffer ++ [v], taken := s.taken ++ [v] }, .val v)
    | [] => (s, .blocked)      -- empty, or closed and drained: TryRecv reports not-ok, never a zero value

def commit (s : St) : St × Option Err :=
  if s.closed then (s, some .canceled)
  else if pending s = 0 then (s, some .nothingToCommit)
  else ({ s with buffer := s.buffer.drop (pending s), committed := s.committed ++ s.buffer.take (pending s) }, none)

def rollbackOp (s : St) : St × Option Err :=
  if pending s = 0 then (s, some .nothingToRollback)
  else ({ s with rollback := s.rollback + pending s }, none)

def close (s : St) : St × Option Err :=
  if s.closed then (s, some .once) else ({ s with closed := true }, none)

inductive Op | send (v : Nat) | closeSrc | get | commit | rollback | close
deriving Repr

def step (s : St) : Op → St
  | .send v => send s v
  | .closeSrc => closeSrc s
  | .get => (getOp s).1
  | .commit => (commit s).1
  | .rollback => (rollbackOp s).1
  | .close => (close s).1

def run (s : St) (ops : List Op) : St := ops.foldl step s
def init : St := {}

end BB.Channel
