/-
  Model of the Buffer's cleanup sub-system (buffer.go `cleanup`, `cleanupLogic`): the cleanup goroutine
  that re-evaluates the cleaner inside WaitCond on every broadcast, the cooldown timer with its
  `broadcast` flag, the self-removing timer goroutine that re-broadcasts when the cooldown ends, and an
  environment of mutators (Put / commit / consumer close / NewConsumer: one critical section of the buffer
  mutex each, which may create a reclaimable prefix, and broadcasts).

  `dirty` abstracts the buffer: "the cleaner would remove something now".  Time is abstracted: an armed
  timer fires as the environment action `fire`.
-/
import BB.Core.LTS

namespace BB.Cleanup

structure Cfg where
  cooldown : Bool := true            -- Cooldown > 0 (a timer is armed after every evaluation)
  timerLocksBuffer : Bool := true    -- the timer goroutine takes the buffer mutex for its re-broadcast (fix F1)
deriving DecidableEq, Repr

inductive CG     -- the cleanup goroutine
  | eval         -- holds the buffer mutex, about to run the cleanup func (predicate of WaitCond)
  | afterEval    -- holds the buffer mutex, cleanup func returned, about to park in cond.Wait
  | parked
  | notified     -- woken, must re-acquire the buffer mutex
deriving DecidableEq, Repr

inductive TG     -- the timer goroutine
  | none | waiting | fired | locked
deriving DecidableEq, Repr

inductive Holder | free | cg | tg
deriving DecidableEq, Repr

structure St where
  cg : CG := .eval
  tg : TG := .none
  bm : Holder := .cg
  timer : Bool := false        -- `timer != nil`
  flag : Bool := false         -- `broadcast`
  dirty : Bool := false
  fires : Nat := 0             -- ghost: timer expiries so far (saturating at 3)
  quiet : Bool := false        -- the workload has gone quiet: no mutator acts any more
deriving DecidableEq, Repr

inductive Act
  | change (makesDirty : Bool)   -- environment: a mutator's critical section (+ broadcast)
  | cgStep
  | tgStep
  | fire                         -- environment: the armed timer expires
  | quiesce                      -- environment: from now on no further operation happens
deriving DecidableEq, Repr

def notify (s : St) : St := if s.cg = .parked then { s with cg := .notified } else s

def step (cfg : Cfg) (s : St) : Act → Option St
  | .change d =>
    if s.bm = .free && !s.quiet then some (notify { s with dirty := s.dirty || d }) else none
  | .cgStep =>
    match s.cg with
    | .eval =>
      if s.timer then some { s with flag := true, cg := .afterEval }
      else
        let s1 := { s with dirty := false, cg := .afterEval }
        if cfg.cooldown then some { s1 with timer := true, flag := false, tg := .waiting } else some s1
    | .afterEval => some { s with cg := .parked, bm := .free }
    | .parked => none
    | .notified => if s.bm = .free then some { s with cg := .eval, bm := .cg } else none
  | .quiesce => some { s with quiet := true, fires := 0 }
  | .fire => if s.tg = .waiting then some { s with tg := .fired, fires := min (s.fires + 1) 3 } else none
  | .tgStep =>
    match s.tg with
    | .fired =>
      if cfg.timerLocksBuffer then (if s.bm = .free then some { s with tg := .locked, bm := .tg } else none)
      else some { s with tg := .locked }
    | .locked =>
      let s1 := if s.flag then notify s else s
      some { s1 with timer := false, flag := false, tg := .none, bm := if s.bm = .tg then .free else s.bm }
    | _ => none

def sys (cfg : Cfg) : LTS.Sys St Act := { init := {}, step := step cfg }

end BB.Cleanup
