/-
  Model of `Call` / `CallArgs` / `CallResults` / `CallResultsSlice` / `callable.Call` (callable.go)
  over an abstract universe of types, with reflect's contract made explicit: the operations that
  panic in reflect (`Type.AssignableTo` on a nil Type, `Value.Type` / `Value.Set` with the zero Value)
  yield the outcome `panic`.  `strict = true` models code that guards untyped nil (the behaviour the
  property demands); `strict = false` models code that calls reflect unguarded.
-/
namespace BB.Callable

inductive Ty | int | str | any | err | pint | sl | map | fn | ch | named | perr | arr
deriving DecidableEq, Repr

def Ty.isIface : Ty → Bool
  | .any | .err => true
  | _ => false

def nilable : Ty → Bool
  | .int | .str | .named | .arr => false   -- basic kinds, and arrays (`[2]int`): no nil value
  | _ => true

/-- `reflect.Type.AssignableTo` on the universe (identical types; anything to `any`; the concrete
    error implementation to `error`) -/
def assignable (a b : Ty) : Bool := a == b || b == .any || (b == .err && a == .perr)

/-- a dynamic value: concrete dynamic type with payload (`none` = typed nil), or the nil interface -/
inductive Val | typed (t : Ty) (v : Option Nat) | unil
deriving DecidableEq, Repr

structure Sig where
  params   : List Ty     -- when `variadic`, the last entry is the ELEMENT type of the variadic slice
  variadic : Bool
  results  : List Ty
deriving Repr

/-- what the function body sees for one parameter of static type `p` when given `a` -/
def passOne (p : Ty) (a : Val) : Option Val :=
  match a with
  | .unil => if nilable p then some (if p.isIface then .unil else .typed p none) else none
  | .typed t v => if assignable t p then some (.typed t v) else none

/-- `resolveArgs`: expand the variadic tail, check the arity, check every argument -/
def expand (sig : Sig) (n : Nat) : Option (List Ty) :=
  if sig.variadic then
    match sig.params.reverse with
    | [] => none
    | e :: revFixed =>
      let fixed := revFixed.reverse
      if n < fixed.length then none else some (fixed ++ List.replicate (n - fixed.length) e)
  else if n = sig.params.length then some sig.params else none

inductive Target | ptr (t : Ty) | nilPtr (t : Ty) | nonPtr (t : Ty) | unil
deriving DecidableEq, Repr

inductive STarget | ptrSlice (elem : Ty) | nilPtrSlice (elem : Ty) | ptrNonSlice (t : Ty) | nonPtr (t : Ty) | unil
deriving DecidableEq, Repr

inductive Mode | none | results (ts : List Target) | slice (t : STarget)
deriving Repr

inductive Outcome
  | ok (passed : List Val) (stored : List Val)   -- invoked exactly once with `passed`; `stored` written to the targets
  | err                                           -- descriptive error, function not invoked, targets untouched
  | panic                                         -- a panic on the library's own account
deriving DecidableEq, Repr

/-- value of static type `t` (as returned by the function) stored into a location of type `dst` -/
def storeOne (v : Val) : Val := v

/-- the argument loop of `resolveArgs`, in order; `Except.error true` = panic, `false` = error -/
def passAll (strict : Bool) : List Ty → List Val → Except Bool (List Val)
  | p :: ps, a :: as =>
    if !strict && a == .unil then .error true   -- nil reflect.Type: `AssignableTo` dereferences nil
    else match passOne p a with
      | none => .error false
      | some v => match passAll strict ps as with
        | .ok vs => .ok (v :: vs)
        | .error e => .error e
  | _, _ => .ok []

def checkArgs (strict : Bool) (sig : Sig) (args : List Val) : Except Bool (List Val) :=
  match expand sig args.length with
  | none => .error false
  | some ps => passAll strict ps args

def checkResults (strict : Bool) (sig : Sig) : Mode → Except Bool Unit
  | .none => .ok ()
  | .results ts =>
    if ts.length ≠ sig.results.length then .error false
    else
      let rec go : List Ty → List Target → Except Bool Unit
        | [], _ => .ok ()
        | _, [] => .ok ()
        | out :: outs, t :: ts =>
          match t with
          | .unil => if strict then .error false else .error true   -- reflect.ValueOf(nil).Type() panics
          | .nonPtr _ => .error false
          | .nilPtr _ => .error false
          | .ptr elem => if assignable out elem then go outs ts else .error false
      go sig.results ts
  | .slice t =>
    match t with
    | .unil => .error false            -- Kind() of the zero Value is Invalid: "not ptr" error
    | .nonPtr _ => .error false
    | .nilPtrSlice _ => .error false
    | .ptrNonSlice _ => .error false
    | .ptrSlice elem => if sig.results.all (fun o => assignable o elem) then .ok () else .error false

/-- `Call(NewCallable(f), CallArgs(args...), <results option>)` where `f` returns `rets` -/
def call (strict : Bool) (sig : Sig) (args : List Val) (mode : Mode) (rets : List Val) : Outcome :=
  match checkArgs strict sig args with
  | .error true => .panic
  | .error false => .err
  | .ok passed =>
    match checkResults strict sig mode with
    | .error true => .panic
    | .error false => .err
    | .ok () =>
      match mode with
      | .none => .ok passed []
      | _ => .ok passed rets

end BB.Callable
