/-
  Protocol model of ChanCaster (chancaster.go) at the granularity of its atomic operations, for an unbounded
  population of senders and receivers and an unbuffered channel (a send and a receive are one rendezvous step).
  The state word and its arithmetic are the transcription in `BB.Model.CasterWord`; the RWMutex is a flag for the
  writer plus "some receiver is inside a read-locked section".
  Receivers follow the contract of `Add`: a goroutine registers with `Add(+d)`, and resolves each registration it
  holds by receiving one value from C or by `Add(-d')` (d' ≤ what it still holds), never both; the total number
  of registrations stays within MaxInt32.  What happens outside that contract is covered at the word level
  (`BB.Proofs.CasterWord`): such an Add panics.
-/
import BB.Core.LTS
import BB.Core.Fun
import BB.Model.CasterWord

namespace BB.Caster
open BB.Fun

inductive RPc
  | out         -- not inside a call (may hold registrations)
  | rlocked     -- Add(+d): holds the read lock, before the atomic add
  | added       -- Add(+d): atomic add done and validated, before RUnlock
  | absorbing   -- Add(-d) during a Send: receiving `k` more values itself
deriving DecidableEq, Repr

structure Recv where
  pc : RPc := .out
  d : Nat := 0               -- delta of the positive Add in progress
  k : Nat := 0               -- values still to absorb
  regs : Nat := 0            -- registrations held: added, not yet served by a value and not removed
  got : List Nat := []       -- values received from C as a registered receiver
  registered : Nat := 0      -- ghost: total ever registered
  removed : Nat := 0         -- ghost: total ever removed by negative Adds
deriving DecidableEq, Repr

inductive SPc
  | idle | want | locked | loaded | sending | unlocking | done | dead
deriving DecidableEq, Repr

structure Sender where
  pc : SPc := .idle
  val : Nat := 0
  snap : Nat := 0            -- the word loaded in the CAS loop
  n : Nat := 0               -- `receivers`: number of sends to perform
  k : Nat := 0               -- sends performed
  ret : Option Nat := none
deriving DecidableEq, Repr

structure St where
  word : Nat := 0
  wlock : Bool := false
  recvs : Nat → Recv := fun _ => {}
  nRecv : Nat := 0
  senders : Nat → Sender := fun _ => {}
  panicked : Bool := false
  T : Nat := 0               -- ghost: sum of `regs`
  P : Nat := 0               -- ghost: sum of `k` over absorbing receivers
  delivered : Nat := 0       -- ghost: values of the armed Send received by registered receivers
  removedDuring : Nat := 0   -- ghost: registrations removed since the armed Send armed

def inW (pc : SPc) : Bool := pc == .locked || pc == .loaded || pc == .sending || pc == .unlocking

/-- nobody is inside a read-locked section -/
def noReaders (s : St) : Bool :=
  (List.range s.nRecv).all fun r => (s.recvs r).pc != .rlocked && (s.recvs r).pc != .added

inductive Act
  | rlock (r d : Nat)        -- Add(+d): RLock acquired
  | radd (r : Nat)           -- the atomic add and its validation
  | runlock (r : Nat)
  | neg (r d : Nat)          -- Add(-d): the atomic subtraction and its validation
  | deliver (s r : Nat)      -- rendezvous: sender s sends, registered receiver r receives
  | absorb (s r : Nat)       -- rendezvous: sender s sends, the negative Add of r receives
  | sbegin (s v : Nat)       -- Send(v): the fast-path load
  | slock (s : Nat)          -- mutex.Lock acquired
  | sload (s : Nat)          -- state.Load and validation inside the CAS loop
  | scas (s : Nat)           -- the CAS that arms the word (fails if the word changed since the load)
  | scheck (s : Nat)         -- after the last send: load, validate, CAS to 0
  | sunlock (s : Nat)
deriving Repr

def step (s : St) : Act → Option St
  | .rlock r d =>
    let rc := s.recvs r
    if rc.pc = .out ∧ 0 < d ∧ d ≤ MAXR ∧ s.wlock = false ∧ r ≤ s.nRecv ∧ s.panicked = false then
      some { s with recvs := upd s.recvs r { rc with pc := .rlocked, d := d }, nRecv := if r = s.nRecv then s.nRecv + 1 else s.nRecv }
    else none
  | .radd r =>
    let rc := s.recvs r
    -- contract: the total number of registrations stays within MaxInt32
    if rc.pc = .rlocked ∧ s.T + rc.d ≤ MAXR ∧ s.panicked = false then
      match add s.word (rc.d : Int) with
      | .ok w _ _ => some { s with word := w, T := s.T + rc.d,
                                   recvs := upd s.recvs r { rc with pc := .added, regs := rc.regs + rc.d, registered := rc.registered + rc.d } }
      | .panic w => some { s with word := w, panicked := true }
    else none
  | .runlock r =>
    let rc := s.recvs r
    if rc.pc = .added then some { s with recvs := upd s.recvs r { rc with pc := .out, d := 0 } } else none
  | .neg r d =>
    let rc := s.recvs r
    -- contract: a goroutine removes only registrations it holds
    if rc.pc = .out ∧ 0 < d ∧ d ≤ rc.regs ∧ s.panicked = false then
      match add s.word (-(d : Int)) with
      | .ok w _ a =>
        some { s with word := w, T := s.T - d, P := s.P + a, removedDuring := s.removedDuring + d,
                      recvs := upd s.recvs r { rc with regs := rc.regs - d, removed := rc.removed + d, k := a,
                                                       pc := if a = 0 then .out else .absorbing } }
      | .panic w => some { s with word := w, panicked := true }
    else none
  | .deliver sd r =>
    let sn := s.senders sd
    let rc := s.recvs r
    if sn.pc = .sending ∧ sn.k < sn.n ∧ rc.pc = .out ∧ 0 < rc.regs then
      some { s with senders := upd s.senders sd { sn with k := sn.k + 1 },
                    recvs := upd s.recvs r { rc with regs := rc.regs - 1, got := rc.got ++ [sn.val] },
                    T := s.T - 1, delivered := s.delivered + 1 }
    else none
  | .absorb sd r =>
    let sn := s.senders sd
    let rc := s.recvs r
    if sn.pc = .sending ∧ sn.k < sn.n ∧ rc.pc = .absorbing ∧ 0 < rc.k then
      some { s with senders := upd s.senders sd { sn with k := sn.k + 1 },
                    recvs := upd s.recvs r { rc with k := rc.k - 1, pc := if rc.k = 1 then .out else .absorbing },
                    P := s.P - 1 }
    else none
  | .sbegin sd v =>
    let sn := s.senders sd
    if sn.pc = .idle ∧ s.panicked = false then
      if s.word = 0 then some { s with senders := upd s.senders sd { sn with pc := .done, val := v, ret := some 0 } }
      else some { s with senders := upd s.senders sd { sn with pc := .want, val := v } }
    else none
  | .slock sd =>
    let sn := s.senders sd
    if sn.pc = .want ∧ s.wlock = false ∧ noReaders s = true then
      some { s with wlock := true, senders := upd s.senders sd { sn with pc := .locked } }
    else none
  | .sload sd =>
    let sn := s.senders sd
    if sn.pc = .locked ∧ s.panicked = false then
      match arm s.word with
      | .zero => some { s with senders := upd s.senders sd { sn with pc := .unlocking, ret := some 0 } }
      | .panic => some { s with panicked := true, senders := upd s.senders sd { sn with pc := .dead } }
      | .armed _ _ => some { s with senders := upd s.senders sd { sn with pc := .loaded, snap := s.word } }
    else none
  | .scas sd =>
    let sn := s.senders sd
    if sn.pc = .loaded then
      if s.word = sn.snap then
        match arm sn.snap with
        | .armed w n => some { s with word := w, delivered := 0, removedDuring := 0,
                                      senders := upd s.senders sd { sn with pc := .sending, n := n, k := 0 } }
        | _ => none
      else some { s with senders := upd s.senders sd { sn with pc := .locked } }
    else none
  | .scheck sd =>
    let sn := s.senders sd
    if sn.pc = .sending ∧ sn.k = sn.n ∧ s.panicked = false then
      match finish s.word sn.n with
      | some t => some { s with word := 0, senders := upd s.senders sd { sn with pc := .unlocking, ret := some t } }
      | none => some { s with panicked := true, senders := upd s.senders sd { sn with pc := .dead } }
    else none
  | .sunlock sd =>
    let sn := s.senders sd
    if sn.pc = .unlocking then some { s with wlock := false, senders := upd s.senders sd { sn with pc := .done } } else none

def sys : LTS.Sys St Act := { init := {}, step := step }

end BB.Caster
