/-
  Executable model of the pure cleaner functions of go-bigbuff (bigbuff.go):
  `DefaultCleaner`, `FixedBufferCleaner(max,target,_)` and the clamp applied by
  `Buffer.cleanupLogic` (buffer.go).  Core Lean only (linked into the `oracle` executable).
-/
namespace BB.Cleaner

/-- State of the loop of `DefaultCleaner`: `(lowest, active)`; `none` = early `return 0`. -/
def defaultStep (acc : Option (Int × Bool)) (offset : Int) : Option (Int × Bool) :=
  match acc with
  | none => none
  | some (lowest, active) =>
    if offset = 0 then none
    else if offset < 0 then some (lowest, active)
    else some (if offset < lowest then offset else lowest, true)

/-- `DefaultCleaner(size, offsets)` — the same early-returning loop as the Go code. -/
def defaultCleaner (size : Int) (offsets : List Int) : Int :=
  match offsets.foldl defaultStep (some (size, false)) with
  | none => 0
  | some (lowest, active) => if active then lowest else 0

/-- `FixedBufferCleaner(max, target, cb)(size, offsets)`. -/
def fixedCleaner (max target size : Int) (offsets : List Int) : Int :=
  if size > max then size - target else defaultCleaner size offsets

/-- the clamp of `cleanupLogic`: number of elements actually shifted for a cleaner result `k`
    on a buffer of length `len`. -/
def clampShift (k : Int) (len : Nat) : Nat :=
  if k > (len : Int) then len else if k ≤ 0 then 0 else k.toNat

end BB.Cleaner
