/-
  Model of `LinearAttempt` (attempt.go): the 1-buffered output channel, the producing goroutine with
  its ticker/select loop, the receiver and the cancellation of the context.  Timestamps are abstract
  tick numbers (tick k is earlier than tick k+1; the initial value has number 0).
-/
import BB.Core.LTS

namespace BB.Attempt

inductive Pc
  | none          -- no goroutine (count = 1, or the context was cancelled at the call)
  | top           -- at the select on ctx.Done() / ticker.C
  | ticked (t : Nat)   -- received tick t, about to re-check the context
  | checked (t : Nat)  -- re-check passed, about to try the non-blocking send
  | exited        -- goroutine returned (channel closed)
deriving DecidableEq, Repr

structure St where
  count     : Nat            -- the count argument
  buf       : Option Nat := none   -- the channel's single buffer slot
  sent      : List Nat := []       -- ghost: every value put into the channel, in order
  got       : List Nat := []       -- ghost: every value received, in order
  i         : Nat := 0             -- values sent by the goroutine (the loop counter)
  closed    : Bool := false
  cancelled : Bool := false
  pc        : Pc := .none
  lastTick  : Nat := 0
  sentAfterCancel : Nat := 0       -- ghost: values put into the channel after the cancellation
deriving DecidableEq, Repr

/-- the state right after `LinearAttempt(ctx, rate, count)` returns -/
def start (count : Nat) (preCancelled : Bool) : St :=
  if preCancelled then { count := count, closed := true, cancelled := true }
  else if count ≤ 1 then { count := count, buf := some 0, sent := [0], closed := true }
  else { count := count, buf := some 0, sent := [0], pc := .top }

inductive Act
  | cancel
  | recv              -- the receiver takes the buffered value
  | tick              -- the ticker fires and the goroutine's select takes it
  | ctxdone           -- the goroutine's select takes ctx.Done()
  | recheck           -- `if ctx.Err() != nil { return }`
  | trysend           -- the non-blocking send
deriving DecidableEq, Repr

def step (s : St) : Act → Option St
  | .cancel => some { s with cancelled := true }
  | .recv =>
    match s.buf with
    | some v => some { s with buf := none, got := s.got ++ [v] }
    | none => none
  | .tick => if s.pc = .top then some { s with pc := .ticked (s.lastTick + 1), lastTick := s.lastTick + 1 } else none
  | .ctxdone => if s.pc = .top && s.cancelled then some { s with pc := .exited, closed := true } else none
  | .recheck =>
    match s.pc with
    | .ticked t => if s.cancelled then some { s with pc := .exited, closed := true } else some { s with pc := .checked t }
    | _ => none
  | .trysend =>
    match s.pc with
    | .checked t =>
      match s.buf with
      | none =>
        let i' := s.i + 1
        let s' := { s with buf := some t, sent := s.sent ++ [t], i := i',
                           sentAfterCancel := if s.cancelled then s.sentAfterCancel + 1 else s.sentAfterCancel }
        -- `for i < count` with count already decremented for the inline first send
        if i' + 1 ≥ s.count then some { s' with pc := .exited, closed := true } else some { s' with pc := .top }
      | some _ => some { s with pc := .top }   -- slow consumer: retry on the next tick, not counted
    | _ => none

def sys (count : Nat) (pre : Bool) : LTS.Sys St Act := { init := start count pre, step := step }

end BB.Attempt
