/-
  Model of `Exclusive.call` (exclusive.go) for ONE key (different keys share nothing but the short map
  mutex, see the T1 facts), as a transition system over an unbounded population of calls and items.
  Every step is one critical section of the item mutex (and, nested, of the map mutex); the lock
  hand-off from `call` to the goroutine it starts makes "attach + first check of `running`" one step.
-/
import BB.Core.LTS

namespace BB.Exclusive

def upd {α : Type} (f : Nat → α) (i : Nat) (v : α) : Nat → α := fun j => if j = i then v else f j

@[simp] theorem upd_same {α : Type} (f : Nat → α) (i : Nat) (v : α) : upd f i v i = v := by simp [upd]
theorem upd_other {α : Type} (f : Nat → α) {i j : Nat} (v : α) (h : j ≠ i) : upd f i v j = f j := by simp [upd, h]

structure Item where
  running  : Bool := false
  complete : Bool := false
  count    : Nat := 0
  fn       : Nat := 0              -- the work function supplied by the last call that attached
  result   : Option Nat := none    -- outcome of its execution (`some 0` = errResolveNotCalled)
  started  : Bool := false         -- ghost: its work function has started
  startClock : Nat := 0            -- ghost
  ranFn    : Nat := 0              -- ghost: the function that was executed
deriving DecidableEq, Repr

inductive Pc
  | idle          -- the call has not been made yet
  | waiting       -- attached; parked in `for item.running { cond.Wait() }`
  | running       -- set item.running = true; still before the swap (possibly sleeping for CallAfter)
  | swapped       -- successor installed, mutex released, about to call the work function
  | working       -- inside the work function
  | returned      -- the work function has returned (resolve forced), about to clear the successor
  | done          -- outcome delivered / start-style call escaped / runner finished
deriving DecidableEq, Repr

structure Thread where
  pc : Pc := .idle
  item : Nat := 0                  -- the item this call attached to
  next : Nat := 0                  -- the successor item this runner installed
  outcome : Option Nat := none     -- what the call received (none for start-style calls)
  start : Bool := false
  attachClock : Nat := 0           -- ghost
  fn : Nat := 0
deriving DecidableEq, Repr

structure St where
  threads : Nat → Thread := fun _ => {}
  items : Nat → Item := fun _ => {}
  nItems : Nat := 0
  map : Option Nat := none         -- `e.work[key]`
  clock : Nat := 0                 -- ghost: global step counter
  attaches : Nat := 0              -- ghost: number of calls made
  execs : Nat := 0                 -- ghost: number of executions started
  owner : Option Nat := none       -- ghost: the call that is between "set running" and "cleared the successor"

def inR (pc : Pc) : Bool := pc == .running || pc == .swapped || pc == .working || pc == .returned

inductive Act
  | call (t : Nat) (fn : Nat) (start : Bool)   -- a Call / CallAfter / CallAsync / Start… by thread t with work function fn
  | wake (t : Nat)                              -- a parked call re-checks `item.running` (after a broadcast, or spuriously)
  | swap (t : Nat)                              -- the runner installs the successor item and releases the mutex
  | startWork (t : Nat)                         -- the runner calls the work function
  | resolve (t : Nat) (r : Nat)                 -- the work function calls resolve(r) (only the first call has an effect)
  | workReturn (t : Nat)                        -- the work function returns (resolve(nil, errResolveNotCalled) is forced)
  | clearNext (t : Nat)                         -- the runner clears the successor's running flag (and deletes it if nobody attached)
deriving Repr

/-- a parked call finds its item complete: it copies the outcome and ends -/
def deliverSt (s : St) (t : Nat) : St :=
  let th := s.threads t
  { s with threads := upd s.threads t { th with pc := .done, outcome := if th.start then none else (s.items th.item).result } }

/-- a parked call finds its item neither running nor complete: it becomes the runner -/
def runSt (s : St) (t : Nat) : St :=
  let th := s.threads t
  { s with threads := upd s.threads t { th with pc := .running }, items := upd s.items th.item { s.items th.item with running := true },
           owner := some t }

/-- what a call does once it is attached to its item and holds its mutex: wait, deliver, or become the runner -/
def enter (s : St) (t : Nat) : St :=
  let it := s.items (s.threads t).item
  if it.running then s          -- stays parked
  else if it.complete then deliverSt s t
  else runSt s t

/-- the runner installs the successor item (already marked running) in the map -/
def swapSt (s : St) (t : Nat) : St :=
  { s with items := upd s.items s.nItems { running := true }, nItems := s.nItems + 1, map := some s.nItems,
           threads := upd s.threads t { s.threads t with pc := .swapped, next := s.nItems } }

/-- the runner calls the work function -/
def startSt (s : St) (t : Nat) : St :=
  let th := s.threads t
  let it := s.items th.item
  { s with threads := upd s.threads t { th with pc := .working },
           items := upd s.items th.item { it with started := true, startClock := s.clock, ranFn := it.fn },
           clock := s.clock + 1, execs := s.execs + 1 }

/-- the first resolve of the runner's item (from inside the work function: `pc' = working`; forced after it
    returned: `pc' = returned`) -/
def finishSt (s : St) (t : Nat) (r : Nat) (pc' : Pc) : St :=
  let th := s.threads t
  let it := s.items th.item
  { s with items := upd s.items th.item { it with result := some r, complete := true, running := false },
           threads := upd s.threads t { th with pc := pc', outcome := if th.start then none else some r } }

/-- the work function returns after it had resolved -/
def retSt (s : St) (t : Nat) : St :=
  { s with threads := upd s.threads t { s.threads t with pc := .returned } }

/-- the runner clears the successor's running flag and deletes the key if nobody attached -/
def clearSt (s : St) (t : Nat) : St :=
  let th := s.threads t
  let nx := s.items th.next
  { s with items := upd s.items th.next { nx with running := false },
           map := if nx.count = 0 then none else s.map,
           threads := upd s.threads t { th with pc := .done }, owner := none }

/-- the map has no item for the key: `call` creates one -/
def alloc (s : St) : St :=
  { s with items := upd s.items s.nItems {}, nItems := s.nItems + 1, map := some s.nItems }

/-- attach call `t` to the map item `j` (both mutexes held): count, work function, start-style escape -/
def attach (s : St) (j t fn : Nat) (start : Bool) : St :=
  let it := s.items j
  let th : Thread := { pc := if start && it.count + 1 ≠ 1 then .done else .waiting, item := j, start := start, attachClock := s.clock, fn := fn }
  { s with items := upd s.items j { it with count := it.count + 1, fn := fn }, clock := s.clock + 1, attaches := s.attaches + 1,
           threads := upd s.threads t th }

def step (s : St) : Act → Option St
  | .call t fn start =>
    if (s.threads t).pc ≠ .idle then none else
    -- find or create the item of the key (the retry loop of `call` ends with an item that is in the map);
    -- attach and the first check of `running` happen under one continuous hold of the item mutex; the model
    -- lets other calls act in between, which only adds behaviours: the real order is `call` followed at once by `wake`
    match s.map with
    | some j => some (attach s j t fn start)
    | none => some (attach (alloc s) s.nItems t fn start)
  | .wake t => if (s.threads t).pc = .waiting then some (enter s t) else none
  | .swap t => if (s.threads t).pc = .running then some (swapSt s t) else none
  | .startWork t => if (s.threads t).pc = .swapped then some (startSt s t) else none
  | .resolve t r =>
    if (s.threads t).pc = .working then
      if (s.items (s.threads t).item).complete then some s      -- once-only
      else some (finishSt s t r .working)
    else none
  | .workReturn t =>
    if (s.threads t).pc = .working then
      if (s.items (s.threads t).item).complete then some (retSt s t)
      else some (finishSt s t 0 .returned)          -- resolve(nil, errResolveNotCalled) is forced
    else none
  | .clearNext t => if (s.threads t).pc = .returned then some (clearSt s t) else none

def sys : LTS.Sys St Act := { init := {}, step := step }

/-- the state changes the steps are made of (a `call` on an empty map is `alloc` followed by `attach`) -/
inductive Micro : St → St → Prop
  | alloc {s : St} : s.map = none → Micro s (alloc s)
  | attach {s : St} {j t : Nat} (fn : Nat) (st : Bool) : s.map = some j → (s.threads t).pc = .idle → Micro s (attach s j t fn st)
  | deliver {s : St} {t : Nat} : (s.threads t).pc = .waiting → (s.items (s.threads t).item).running = false →
      (s.items (s.threads t).item).complete = true → Micro s (deliverSt s t)
  | run {s : St} {t : Nat} : (s.threads t).pc = .waiting → (s.items (s.threads t).item).running = false →
      (s.items (s.threads t).item).complete = false → Micro s (runSt s t)
  | swap {s : St} {t : Nat} : (s.threads t).pc = .running → Micro s (swapSt s t)
  | start {s : St} {t : Nat} : (s.threads t).pc = .swapped → Micro s (startSt s t)
  | finish {s : St} {t : Nat} (r : Nat) (pc' : Pc) : (s.threads t).pc = .working → (s.items (s.threads t).item).complete = false →
      (pc' = .working ∨ pc' = .returned) → Micro s (finishSt s t r pc')
  | ret {s : St} {t : Nat} : (s.threads t).pc = .working → (s.items (s.threads t).item).complete = true → Micro s (retSt s t)
  | clear {s : St} {t : Nat} : (s.threads t).pc = .returned → Micro s (clearSt s t)

theorem step_micro {s s' : St} {a : Act} (hs : sys.step s a = some s') :
    s' = s ∨ Micro s s' ∨ ∃ m, Micro s m ∧ Micro m s' := by
  cases a with
  | call t fn start =>
    simp only [sys, step] at hs
    split at hs
    · cases hs
    rename_i hidle
    have hidle : (s.threads t).pc = .idle := by simpa using hidle
    split at hs
    · rename_i j hm; cases hs; exact Or.inr (Or.inl (.attach fn start hm hidle))
    · rename_i hm; cases hs
      exact Or.inr (Or.inr ⟨alloc s, .alloc hm, .attach fn start rfl hidle⟩)
  | wake t =>
    simp only [sys, step] at hs
    split at hs
    · rename_i ht; cases hs
      unfold enter; simp only
      split
      · exact Or.inl rfl
      · rename_i hr
        split
        · rename_i hc; exact Or.inr (Or.inl (.deliver ht (by simpa using hr) hc))
        · rename_i hc; exact Or.inr (Or.inl (.run ht (by simpa using hr) (by simpa using hc)))
    · cases hs
  | swap t =>
    simp only [sys, step] at hs
    split at hs
    · rename_i ht; cases hs; exact Or.inr (Or.inl (.swap ht))
    · cases hs
  | startWork t =>
    simp only [sys, step] at hs
    split at hs
    · rename_i ht; cases hs; exact Or.inr (Or.inl (.start ht))
    · cases hs
  | resolve t r =>
    simp only [sys, step] at hs
    split at hs
    · rename_i ht
      split at hs
      · cases hs; exact Or.inl rfl
      · rename_i hc; cases hs; exact Or.inr (Or.inl (.finish r .working ht (by simpa using hc) (Or.inl rfl)))
    · cases hs
  | workReturn t =>
    simp only [sys, step] at hs
    split at hs
    · rename_i ht
      split at hs
      · rename_i hc; cases hs; exact Or.inr (Or.inl (.ret ht hc))
      · rename_i hc; cases hs; exact Or.inr (Or.inl (.finish 0 .returned ht (by simpa using hc) (Or.inr rfl)))
    · cases hs
  | clearNext t =>
    simp only [sys, step] at hs
    split at hs
    · rename_i ht; cases hs; exact Or.inr (Or.inl (.clear ht))
    · cases hs

/-- the invariant rule for properties preserved by every micro step -/
theorem micro_invariant (I : St → Prop) (h0 : I sys.init) (hm : ∀ s s', I s → Micro s s' → I s') :
    ∀ s, LTS.Reach sys s → I s :=
  LTS.invariant sys I h0 (fun s _ s' hI hs => by
    rcases step_micro hs with e | h1 | ⟨m, h1, h2⟩
    · rw [e]; exact hI
    · exact hm _ _ hI h1
    · exact hm _ _ (hm _ _ hI h1) h2)

end BB.Exclusive
