/-
  Model of `Workers` (workers.go) as a transition system at the granularity of the critical sections
  of `Workers.mutex`: `call` (enqueue, set target, top the workers up), `take` (a worker dequeues),
  `finish` (the job function returned; the result is sent on the job's buffered reply channel),
  `exit` (a worker leaves).  `count` is the number of live workers = `workers.length`.
-/
import BB.Core.LTS

namespace BB.Workers

structure St where
  target  : Nat := 0
  queue   : List Nat := []            -- job ids, FIFO
  workers : List (Option Nat) := []   -- live workers: `none` = at the top of its loop, `some j` = running job j
  done    : List Nat := []            -- ghost: finished jobs, in order
  maxReq  : Nat := 0                  -- ghost: the largest count any caller has requested so far
deriving Repr, DecidableEq

def count (s : St) : Nat := s.workers.length
def running (s : St) : List Nat := s.workers.filterMap id
def allJobs (s : St) : List Nat := s.queue ++ running s ++ s.done

inductive Act
  | call (j n : Nat)     -- Call(n, job j)
  | take (i : Nat)       -- worker i dequeues the head of the queue
  | finish (i : Nat)     -- worker i's job returned
  | exit (i : Nat)       -- worker i exits
deriving Repr, DecidableEq

def step (s : St) : Act → Option St
  | .call j n =>
    if n = 0 ∨ j ∈ allJobs s then none     -- Call panics for count <= 0; job ids are fresh
    else some { s with queue := s.queue ++ [j], target := n,
                       workers := s.workers ++ List.replicate (n - count s) none,
                       maxReq := max s.maxReq n }
  | .take i =>
    match s.workers[i]?, s.queue with
    | some none, j :: rest =>
      if count s > s.target then none
      else some { s with queue := rest, workers := s.workers.set i (some j) }
    | _, _ => none
  | .finish i =>
    match s.workers[i]? with
    | some (some j) => some { s with workers := s.workers.set i none, done := s.done ++ [j] }
    | _ => none
  | .exit i =>
    match s.workers[i]? with
    | some none =>
      if s.queue = [] ∨ count s > s.target then some { s with workers := s.workers.eraseIdx i } else none
    | _ => none

def sys : LTS.Sys St Act := { init := {}, step := step }

end BB.Workers
