/-
  Executable model of `Buffer` + `consumer` (buffer.go, consumer.go, bigbuff.go), layer L1:
  every step is one critical section of `Buffer.mutex` (together with the consumer mutex that
  the real code holds around it).  `log` is a ghost: every value ever accepted by Put, in the
  order in which the Put critical sections ran.  Core Lean only.
-/
import BB.Model.Cleaner

namespace BB.Buffer

/-- one registered (or formerly registered) consumer; consumers are named by creation index -/
structure Cons where
  committed  : Nat          -- `Buffer.consumers[c]` : absolute committed offset
  delta      : Nat          -- `consumer.offset`     : reads since the last commit/rollback
  start      : Nat          -- ghost: `Buffer.offset` when the consumer was created
  registered : Bool         -- still a key of `Buffer.consumers`
  cancelled  : Bool         -- `consumer.ctx` cancelled (Close begun, or the buffer was closed)
deriving DecidableEq, Repr, Inhabited

structure St where
  log    : List Nat  := []    -- ghost: the put order
  base   : Nat       := 0     -- `Buffer.offset`
  buf    : List Nat  := []    -- `Buffer.buffer`
  cons   : List Cons := []
  closed : Bool      := false -- `Buffer.ctx` cancelled
  reads  : List (Nat × Nat × Nat) := []  -- ghost: (consumer, position, value) of every successful Get
deriving Repr, Inhabited

inductive Err | canceled | unknownConsumer | past | nothingToCommit | nothingToRollback
deriving DecidableEq, Repr

/-- result of the non-blocking part of `consumer.Get` (`getAsync` → `get`) -/
inductive GetR
  | val (v : Nat)
  | pending                   -- the real call parks in WaitCond
  | err (e : Err)
deriving DecidableEq, Repr

def St.pos (k : Cons) : Nat := k.committed + k.delta

/-- `consumer.Get` up to the point where it either has a result or must wait. Mirrors
    `c.ctx.Err()`, then `Buffer.get`: `b.ctx.Err()`, map lookup, `relative < 0`, `relative >= len`. -/
def getTry (s : St) (c : Nat) : GetR :=
  match s.cons[c]? with
  | none => .err .unknownConsumer
  | some k =>
    if k.cancelled then .err .canceled
    else if s.closed then .err .canceled
    else if !k.registered then .err .unknownConsumer
    else
      let pos := k.committed + k.delta
      if pos < s.base then .err .past
      else match s.buf[pos - s.base]? with
        | none => .pending
        | some v => .val v

def setCons (s : St) (c : Nat) (k : Cons) : St := { s with cons := s.cons.set c k }

/-- a successful Get advances the delta by one; nothing else changes -/
def get (s : St) (c : Nat) : St × GetR :=
  match getTry s c, s.cons[c]? with
  | .val v, some k =>
    ({ s with cons := s.cons.set c { k with delta := k.delta + 1 },
              reads := s.reads ++ [(c, k.committed + k.delta, v)] }, .val v)
  | r, _ => (s, r)

def put (s : St) (vs : List Nat) : St × Option Err :=
  if s.closed then (s, some .canceled)
  else ({ s with buf := s.buf ++ vs, log := s.log ++ vs }, none)

def newConsumer (s : St) : St × Option Err :=
  if s.closed then (s, some .canceled)
  else ({ s with cons := s.cons ++ [{ committed := s.base, delta := 0, start := s.base,
                                      registered := true, cancelled := false }] }, none)

/-- `consumer.Commit` → `Buffer.commit` -/
def commit (s : St) (c : Nat) : St × Option Err :=
  match s.cons[c]? with
  | none => (s, some .unknownConsumer)
  | some k =>
    if k.delta = 0 then (s, some .nothingToCommit)
    else if !k.registered then (s, some .unknownConsumer)
    else (setCons s c { k with committed := k.committed + k.delta, delta := 0 }, none)

def rollback (s : St) (c : Nat) : St × Option Err :=
  match s.cons[c]? with
  | none => (s, some .unknownConsumer)
  | some k =>
    if k.delta = 0 then (s, some .nothingToRollback)
    else (setCons s c { k with delta := 0 }, none)

/-- first half of `consumer.Close`: the consumer context is cancelled -/
def cancelCons (s : St) (c : Nat) : St :=
  match s.cons[c]? with
  | none => s
  | some k => setCons s c { k with cancelled := true }

/-- second half of `consumer.Close`: enabled when `delta = 0`; deregisters (`Buffer.delete`) -/
def finishClose (s : St) (c : Nat) : St :=
  match s.cons[c]? with
  | none => s
  | some k => if k.cancelled && k.delta == 0 then setCons s c { k with registered := false } else s

/-- run `finishClose` for every consumer (the watcher goroutines) -/
def settle (s : St) : St := (List.range s.cons.length).foldl finishClose s

/-- first half of `Buffer.Close`: cancels the buffer context, hence every consumer context -/
def closeBuf (s : St) : St :=
  { s with closed := true, cons := s.cons.map fun k => { k with cancelled := true } }

/-- relative committed offsets of the registered consumers, as `consumerOffsets` computes them
    (the Go code iterates a map: the order is unspecified) -/
def offsets (s : St) : List Int :=
  (s.cons.filter (·.registered)).map fun k => (k.committed : Int) - (s.base : Int)

/-- `cleanupLogic` for a cleaner result `k` -/
def clean (s : St) (k : Int) : St :=
  let sh := Cleaner.clampShift k s.buf.length
  { s with buf := s.buf.drop sh, base := s.base + sh }

def cleanDefault (s : St) : St × Int :=
  let k := Cleaner.defaultCleaner s.buf.length (offsets s)
  (clean s k, k)

def cleanFixed (s : St) (max target : Int) : St × Int :=
  let k := Cleaner.fixedCleaner max target s.buf.length (offsets s)
  (clean s k, k)

def size (s : St) : Nat := s.buf.length

/-- `Buffer.Diff` : `len(buffer) - (committed + delta - offset)` -/
def diff (s : St) (c : Nat) : Option Int :=
  match s.cons[c]? with
  | none => none
  | some k => if k.registered then
      some ((s.buf.length : Int) - ((k.committed : Int) + (k.delta : Int) - (s.base : Int)))
    else none

/-! ### `Range` (bigbuff.go) and `Buffer.Range` as functions over a script of callback outcomes -/

/-- callback outcomes: continue / stop / panic / `put v`: the callback Puts `v` into the buffer, then continues /
    `take`: the callback itself reads the next value of the SAME consumer (a consumer shared with other users), then continues -/
inductive Cb | continue_ | stop | panic | put (v : Nat) | take
deriving DecidableEq, Repr

inductive RangeEnd
  | getErr (e : Err)     -- Get failed (after the deferred Rollback)
  | blocked              -- Get would block (the harness then cancels the context)
  | commitErr (e : Err)
  | stopped              -- callback returned false (value committed)
  | panicked             -- callback panicked (value rolled back)
  | diffStop             -- Buffer.Range only: Diff reported nothing left
  | scriptEnd            -- ran out of scripted callback outcomes
deriving DecidableEq, Repr

/-- one visit: the value handed to the callback -/
abbrev Visits := List Nat

/-- `bigbuff.Range` on consumer `c`; `bufferRange = true` adds the Diff guard of `Buffer.Range`
    after each callback.  Returns the final state, the values visited, and how it ended. -/
def range (bufferRange : Bool) (c : Nat) : List Cb → St → Visits → St × Visits × RangeEnd
  | [], s, vis => (s, vis, .scriptEnd)
  | cb :: rest, s, vis =>
    match get s c with
    | (_, .err e) => ((rollback s c).1, vis, .getErr e)
    | (_, .pending) => ((rollback s c).1, vis, .blocked)
    | (s1, .val v) =>
      let vis := vis ++ [v]
      match cb with
      | .panic => ((rollback s1 c).1, vis, .panicked)
      | cb =>
        let s1 := match cb with | .put v => (put s1 [v]).1 | .take => (get s1 c).1 | _ => s1
        match commit s1 c with
        | (s2, some e) => ((rollback s2 c).1, vis, .commitErr e)
        | (s2, none) =>
          if cb = .stop then (s2, vis, .stopped)
          else if bufferRange && (match diff s2 c with | some d => decide (d ≤ 0) | none => true) then
            (s2, vis, .diffStop)
          else range bufferRange c rest s2 vis

/-- `Buffer.Range`: the initial `Diff` guard, then `range` with the per-iteration guard -/
def bufferRange (c : Nat) (cbs : List Cb) (s : St) : St × Visits × RangeEnd :=
  match diff s c with
  | none => (s, [], .diffStop)
  | some d => if d ≤ 0 then (s, [], .diffStop) else range true c cbs s []

end BB.Buffer

namespace BB.Buffer

/-- the L1 actions: one per critical section (any thread may perform any of them at any time) -/
inductive Op
  | put (vs : List Nat)
  | newConsumer
  | get (c : Nat)
  | commit (c : Nat)
  | rollback (c : Nat)
  | cancelCons (c : Nat)
  | finishClose (c : Nat)
  | closeBuf
  | clean (k : Int)                 -- an arbitrary cleaner returned `k`
  | cleanDefault
  | cleanFixed (max target : Int)
deriving Repr

def step (s : St) : Op → St
  | .put vs => (put s vs).1
  | .newConsumer => (newConsumer s).1
  | .get c => (get s c).1
  | .commit c => (commit s c).1
  | .rollback c => (rollback s c).1
  | .cancelCons c => cancelCons s c
  | .finishClose c => finishClose s c
  | .closeBuf => closeBuf s
  | .clean k => clean s k
  | .cleanDefault => (cleanDefault s).1
  | .cleanFixed m t => (cleanFixed s m t).1

def run (s : St) (ops : List Op) : St := ops.foldl step s

def init : St := {}

end BB.Buffer
