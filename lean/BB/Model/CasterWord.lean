/-
  ChanCaster's packed state word (chancaster.go), as arithmetic on `Nat` modulo 2^64:
  hi 32 bits = number of receivers, lo 32 bits = the same, or the same + MaxInt32 while a Send is in flight.
  `add` transcribes `ChanCaster.Add` (the word it leaves in `state`, whether it panics, what it returns and how
  many values it then receives itself); `arm` / `finish` transcribe the two CAS points of `ChanCaster.Send`.
-/
namespace BB.Caster

def MAXR : Nat := 2147483647               -- math.MaxInt32
def W32 : Nat := 4294967296
def W64 : Nat := 18446744073709551616

def hi (w : Nat) : Nat := w / W32
def lo (w : Nat) : Nat := w % W32
def pack (h l : Nat) : Nat := h * W32 + l

inductive AddOut
  | panic (w : Nat)                          -- panics; `w` is the word left behind
  | ok (w : Nat) (ret : Nat) (absorb : Nat)  -- returns `ret`; `absorb` = values it receives from C before returning
deriving DecidableEq, Repr

/-- `ChanCaster.Add(delta)` on state word `w` (as one atomic read-modify-write plus the validation) -/
def add (w : Nat) (delta : Int) : AddOut :=
  if delta ≥ 0 then
    let d := delta.toNat
    if d > MAXR then .panic w else
    let state := if d = 0 then w else (w + pack d d) % W64
    let receivers := hi state
    let tracker := lo state
    if receivers ≤ MAXR ∧ receivers ≥ d ∧ (receivers = tracker ∨ (d = 0 ∧ receivers + MAXR = tracker)) then .ok state receivers 0
    else .panic state
  else
    let d := (-delta).toNat
    if d > MAXR then .panic w else
    let state := (w + (W64 - pack d d)) % W64
    let receivers := hi state
    if receivers ≤ MAXR ∧ MAXR - receivers ≥ d then
      if lo state = receivers then .ok state receivers 0
      else if lo state = MAXR + receivers then .ok state receivers d
      else .panic state
    else .panic state

inductive ArmOut
  | zero                       -- state word is 0: Send returns 0
  | panic
  | armed (w : Nat) (n : Nat)  -- the word the CAS installs and the number of sends to perform
deriving DecidableEq, Repr

/-- the load / validate / compute part of Send's CAS loop on the loaded word `s` -/
def arm (s : Nat) : ArmOut :=
  if s = 0 then .zero else
  let receivers := hi s
  let tracker := lo s
  if tracker ≠ receivers ∨ receivers > MAXR then .panic
  else .armed (pack receivers ((tracker + MAXR) % W32)) receivers

/-- Send's final validation of the loaded word `s` after `n` sends: `some ret` (and the word is reset to 0) or panic -/
def finish (s n : Nat) : Option Nat :=
  let t := hi s
  if t > n ∨ lo s ≠ (t + MAXR) % W32 then none else some t

/-- a quiescent word with `n` receivers / an armed word with `h` receivers still counted -/
def idleWord (n : Nat) : Nat := pack n n
def armedWord (h : Nat) : Nat := pack h (h + MAXR)

end BB.Caster
