import BB.Model.Cleaner
import BB.Model.Buffer
