import BB.Model.Cleaner
import BB.Model.Buffer
import BB.Conform.Generic
import BB.Proofs.PubSubHist
import BB.Model.CtxBuild
import BB.Proofs.CtxBuild
import BB.Conform.Worker
import BB.Proofs.CasterLive
