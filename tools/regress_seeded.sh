#!/bin/bash
# re-run every seeded change against the quick check of its property; prints one line per change (expected: rc=1)
cd /verif
for d in seeded/*/; do
  id=$(basename "$d")
  prop=$(python3 -c "import json,sys;print(json.load(open('$d/meta.json')).get('property','?'))" 2>/dev/null)
  [ -f "$d/patch.diff" ] || { echo "$id no-patch"; continue; }
  out=$(tools/trymutant.sh "/verif/$d/patch.diff" "$prop" 2>&1)
  rc=$(echo "$out" | grep -o "rc=[0-9]*" | head -1)
  found=$(echo "$out" | grep -c "^VIOLATION" )
  nof=$(echo "$out" | grep -c "no-failing-input-found")
  echo "$id $prop $rc violations=$found without-input=$nof"
done
