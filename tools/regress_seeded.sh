#!/bin/bash
# re-run every seeded change against the quick check of its property; prints one line per change (expected: rc=1, except the changes whose meta.json says the property still holds: rc=0)
V="$(cd "$(dirname "$0")/.." && pwd)"
cd "$V"
if [ -n "${VP_RUN_REPO:-}" ]; then export VERIF_REPO="$VP_RUN_REPO"; sed -i "s#=> /repo#=> $VERIF_REPO#" go/go.mod; bin/check setup >/dev/null 2>&1; fi
for d in seeded/*/; do
  id=$(basename "$d")
  prop=$(python3 -c "import json,sys;print(json.load(open('$d/meta.json')).get('property','?'))" 2>/dev/null)
  [ -f "$d/patch.diff" ] || { echo "$id no-patch"; continue; }
  out=$(tools/trymutant.sh "$V/$d/patch.diff" "$prop" 2>&1)
  rc=$(echo "$out" | grep -o "rc=[0-9]*" | head -1)
  found=$(echo "$out" | grep -c "^VIOLATION" )
  nof=$(echo "$out" | grep -c "no-failing-input-found")
  exp=$(python3 -c "import json;print('rc=0' if json.load(open('$d/meta.json')).get('expected','').startswith('rc=0') else 'rc=1')")
  echo "$id $prop $rc violations=$found without-input=$nof expected=$exp $([ "$rc" = "$exp" ] || echo UNEXPECTED)"
done
