#!/bin/bash
# run every claimed check (quick, or the tier given as $1) on the current tree; prints one line per property
tier="${1:-quick}"
cd /verif
for p in $(python3 -c "import json;print(' '.join(c['property_id'] for c in json.load(open('MANIFEST.json'))['checks']))"); do
  t0=$(date +%s)
  out=$(bin/check "$p" --tier "$tier" 2>&1); rc=$?
  echo "$p rc=$rc $(( $(date +%s)-t0 ))s $(echo "$out" | grep -E '^\[' | tail -1 | cut -c1-160)"
  echo "$out" | grep -E "VIOLATION|KNOWN" | cut -c1-300 | head -5
done
