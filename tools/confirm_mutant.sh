#!/bin/bash
# usage: confirm_mutant.sh <worktree> <mutantdir>  — confirm a sub-agent's mutant in its scratch worktree:
# builds, existing suite passes (modulo baseline failures), demo fails with the change and passes without.
export GOFLAGS=-mod=mod GOPROXY=off GOSUMDB=off GOTOOLCHAIN=local
wt="$1"; md="$2"
cd "$wt" || exit 2
git checkout -q -- . ; rm -f zz_demo_test.go
# keep the MUTANT dirs out of ./... (they contain package bigbuff test files)
demo="$md/demo_test.go"
testname=$(grep -o 'func Test[A-Za-z0-9_]*' "$demo" | head -1 | sed 's/func //')
res() { echo "\"$1\": \"$2\","; }
{
echo "{"
git apply "$md/patch.diff" && res apply ok || { res apply FAIL; echo "}"; exit 1; }
go build . && res build ok || res build FAIL
cp "$demo" zz_demo_test.go
go test -vet=off -count=1 -run "^${testname}\$" . > /tmp/cm_demo_with.txt 2>&1 && res demo_with_change PASS || res demo_with_change fail
rm -f zz_demo_test.go
go test -vet=off -count=1 -timeout 25m . > /tmp/cm_suite.txt 2>&1
fails=$(grep -- "^--- FAIL" /tmp/cm_suite.txt | awk '{print $3}' | sort -u | tr '\n' ' ')
res suite_failures "$fails"
git checkout -q -- .
cp "$demo" zz_demo_test.go
go test -vet=off -count=1 -run "^${testname}\$" . > /tmp/cm_demo_without.txt 2>&1 && res demo_without_change pass || res demo_without_change FAIL
rm -f zz_demo_test.go
echo "\"test\": \"$testname\""
echo "}"
} > "$md/confirm.json"
cat "$md/confirm.json"
