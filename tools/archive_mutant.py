#!/usr/bin/env python3
"""archive_mutant.py <srcdir> <seeded-id> <property> <caught_by text> — copy a confirmed sub-agent mutant into /verif/seeded/<id>/"""
import json, os, shutil, sys
src, sid, prop, caught = sys.argv[1:5]
dst = os.path.join("/verif/seeded", sid)
os.makedirs(dst, exist_ok=True)
shutil.copy(os.path.join(src, "patch.diff"), os.path.join(dst, "patch.diff"))
shutil.copy(os.path.join(src, "demo_test.go"), os.path.join(dst, "demo_test.go.txt"))
notes = open(os.path.join(src, "NOTES.md")).read() if os.path.exists(os.path.join(src, "NOTES.md")) else ""
open(os.path.join(dst, "NOTES.md"), "w").write(notes)
conf = {}
cp = os.path.join(src, "confirm.json")
if os.path.exists(cp):
    try:
        conf = json.load(open(cp))
    except Exception as e:
        conf = {"raw": open(cp).read()}
meta = {
    "id": sid, "property": prop, "origin": "independent sub-agent given only the property text and a scratch worktree",
    "needs_to_manifest": notes.split("\n\n")[0][:600] if notes else "",
    "confirmed_by_me": {"script": "tools/confirm_mutant.sh (scratch worktree): patch applies, go build, demo test fails with the change, full suite passes modulo baseline/flaky failures, demo passes without the change", "result": conf},
    "checks_run": f"tools/trymutant.sh seeded/{sid}/patch.diff {prop}  (git -C /repo apply; bin/check {prop}; git -C /repo checkout -- .)",
    "caught_by": caught,
}
json.dump(meta, open(os.path.join(dst, "meta.json"), "w"), indent=1)
print("archived", sid)
