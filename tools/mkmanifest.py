#!/usr/bin/env python3
"""Regenerate /verif/MANIFEST.json from lib/props.py + lib/manifest_text.py (kept in one place so the
manifest never drifts from what bin/check actually runs)."""
import json, os, sys, subprocess
V = os.path.abspath(os.path.join(os.path.dirname(__file__), ".."))
sys.path.insert(0, os.path.join(V, "lib"))
from props import PROPS
from manifest_text import TEXT, NOT_YET

ids = [json.loads(l)["id"] for l in open(os.path.join(V, "properties.jsonl"))]
hooks = subprocess.run(["git", "-C", "/repo", "log", "--format=%H %s"], capture_output=True, text=True).stdout.strip().split("\n")
hook_commits = [l.split()[0] for l in hooks if l.split(" ", 1)[1].startswith("verif:")]
m = {
    "version": 1,
    "setup_cmd": "bin/check setup",
    "hooks": {
        "guard": "verif",
        "enable": "go build -tags verif (the harness module /verif/go replaces github.com/joeycumines/go-bigbuff => /repo)",
        "baseline_off_cmd": "cd /repo && GOFLAGS=-mod=mod GOPROXY=off GOSUMDB=off GOTOOLCHAIN=local go test -vet=off -count=1 -timeout 25m ./...",
        "source_commits": hook_commits,
        "add_only": True,
    },
    "engines": [
        {"name": "lean-bb", "path": "lean", "serves_properties": sorted(PROPS), "kind_free_text": "Lean 4 lake project: executable models (BB/Model), proofs (BB/Proofs), property theorems (BB/Props), regenerated facts (BB/Gen, BB/Conform), oracle executable"},
        {"name": "corr", "path": "go/cmd/corr", "serves_properties": sorted(PROPS), "kind_free_text": "Go harness: runs the real code (built with -tags verif from /repo's working tree) on generated scripts/schedules, prints the line protocol that the Lean oracle replays"},
        {"name": "extract", "path": "go/cmd/extract", "serves_properties": [p for p in sorted(PROPS) if PROPS[p].get("uses_extract")], "kind_free_text": "translator go/ast+go/types -> BB/Gen/*.lean (constants, field-access/lockset table, synchronisation skeletons)"},
        {"name": "check", "path": "bin/check", "serves_properties": sorted(PROPS), "kind_free_text": "orchestrator: build, prove+audit, correspond, search/shrink, known findings, evidence"},
    ],
    "checks": [],
    "not_applicable": [],
    "notes": "All claimed checks decide by Lean 4 proof about a formal model tied to /repo on every run (see DESIGN.md). "
             "VERIF_SEED and VERIF_TIER are honoured; replays: bin/check replay <file>.",
}
for pid in ids:
    if pid in PROPS:
        t = TEXT[pid]
        m["checks"].append({
            "property_id": pid,
            "quick_cmd": f"bin/check {pid} --tier quick",
            "thorough_cmd": f"bin/check {pid} --tier thorough",
            "evidence_file": f"/verif/evidence/{pid}.json",
            "replay_cmd_template": "bin/check replay {path}",
            "engine": "lean-bb + corr",
            "level_claimed": {"category": "proof", "text": t["text"], "design_ref": t.get("design_ref", "DESIGN.md §6 " + pid)},
            "level_note": t["note"],
            "technique": t["technique"],
        })
    else:
        m["not_applicable"].append({"property_id": pid, "reason": NOT_YET.get(pid, "no check claimed yet in this commit: model/theorems/correspondence for this property are still being built (see DESIGN.md §10)")})
json.dump(m, open(os.path.join(V, "MANIFEST.json"), "w"), indent=1)
print("checks:", [c["property_id"] for c in m["checks"]], "not_applicable:", len(m["not_applicable"]))
