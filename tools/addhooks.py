#!/usr/bin/env python3
"""One-off helper used while developing: insert verifPoint lines after/before anchor lines.
usage: addhooks.py file  (reads spec from stdin: lines  A|B <tab> occurrence <tab> anchor-substring <tab> hook-code)"""
import sys
path=sys.argv[1]
lines=open(path).read().split('\n')
spec=[l for l in sys.stdin.read().split('\n') if l.strip()]
for sp in spec:
    mode,occ,anchor,code=sp.split('|')
    occ=int(occ)
    idxs=[i for i,l in enumerate(lines) if anchor in l and 'verifPoint' not in l]
    if len(idxs)<occ: sys.exit(f"anchor not found: {anchor!r} occ {occ}")
    i=idxs[occ-1]
    indent=lines[i][:len(lines[i])-len(lines[i].lstrip())]
    if mode=='A':
        # after: if anchor line opens a block, indent one more
        ind=indent+('\t' if lines[i].rstrip().endswith('{') else '')
        lines.insert(i+1, ind+code)
    else:
        lines.insert(i, indent+code)
open(path,'w').write('\n'.join(lines))
