#!/bin/bash
# usage: trymutant.sh <patch.diff> <prop>...   — applies the patch to /repo, runs the quick checks, reverts.
set -u
patch="$1"; shift
cd /repo || exit 2
if ! git diff --quiet; then echo "repo dirty"; exit 2; fi
git apply "$patch" || { echo "patch does not apply"; exit 2; }
for p in "$@"; do
  out=$(cd /verif && timeout 900 bin/check "$p" 2>&1)
  rc=$?
  echo "== $p rc=$rc"
  echo "$out" | grep -E "VIOLATION|KNOWN|^\[$p\]" | cut -c1-400 | head -8
done
git -C /repo checkout -- .
