#!/bin/bash
# usage: trymutant.sh <patch.diff> <prop>...   — applies the patch to /repo, runs the quick checks, reverts.
# The evidence files are saved and restored: committed evidence must come from runs on the unchanged tree.
set -u
patch="$1"; shift
cd /repo || exit 2
if ! git diff --quiet; then echo "repo dirty"; exit 2; fi
git apply "$patch" || { echo "patch does not apply"; exit 2; }
bk=$(mktemp -d); cp -a /verif/evidence/. "$bk"/ 2>/dev/null
for p in "$@"; do
  out=$(cd /verif && timeout 1800 bin/check "$p" 2>&1)
  rc=$?
  echo "== $p rc=$rc"
  echo "$out" | grep -E "VIOLATION|KNOWN|^\[$p\]" | cut -c1-400 | head -8
done
git -C /repo checkout -- .
rm -rf /verif/evidence; mkdir -p /verif/evidence; cp -a "$bk"/. /verif/evidence/; rm -rf "$bk"
# regenerate the facts for the unchanged tree
[ -x /verif/build/extract ] && /verif/build/extract /repo /verif/lean/BB/Gen >/dev/null
