#!/bin/bash
# usage: trymutant.sh <patch.diff> <prop>...   — applies the patch to /repo, runs the quick checks, reverts.
# The evidence files are saved and restored: committed evidence must come from runs on the unchanged tree.
set -u
patch="$1"; shift
REPO="${VERIF_REPO:-/repo}"
V="$(cd "$(dirname "$0")/.." && pwd)"
cd "$REPO" || exit 2
if ! git diff --quiet; then echo "repo dirty"; exit 2; fi
git apply "$patch" || { echo "patch does not apply"; exit 2; }
bk=$(mktemp -d); cp -a "$V"/evidence/. "$bk"/ 2>/dev/null
for p in "$@"; do
  out=$(cd "$V" && timeout 1800 bin/check "$p" 2>&1)
  rc=$?
  echo "== $p rc=$rc"
  echo "$out" | grep -E "VIOLATION|KNOWN|^\[$p\]" | cut -c1-400 | head -8
done
git -C "$REPO" checkout -- .
rm -rf "$V"/evidence; mkdir -p "$V"/evidence; cp -a "$bk"/. "$V"/evidence/; rm -rf "$bk"
# regenerate the facts for the unchanged tree
[ -x "$V"/build/extract ] && "$V"/build/extract "$REPO" "$V"/lean/BB/Gen >/dev/null
