#!/bin/bash
# run inside a `vp run --with-repo` snapshot: checks run against the snapshot copy of /repo ($VP_RUN_REPO), so that
# seeded changes applied to /repo meanwhile do not disturb the sweep.  usage: sweep_snapshot.sh <tier> <seeds...>
tier="$1"; shift
export VERIF_REPO="${VP_RUN_REPO:-/repo}"
sed -i "s#=> /repo#=> $VERIF_REPO#" go/go.mod
bin/check setup >/dev/null 2>&1
for s in "$@"; do
  for p in $(python3 -c "import json;print(' '.join(c['property_id'] for c in json.load(open('MANIFEST.json'))['checks']))"); do
    VERIF_SEED=$s bin/check "$p" --tier "$tier" 2>&1 | grep -E "^\[|VIOLATION|KNOWN" | cut -c1-250
  done
done
